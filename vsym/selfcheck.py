"""vsym.selfcheck -- differential validation of the abstract domain and the builtin models against CPython.

Run at the start of every check (seeded by VERIF_SEED).  It validates the *models*, not cardutil:
  1. rope operations (slice with Python semantics incl. negative / out-of-range bounds, concatenation, encode/decode with the three
     total codecs, equality, ljust/rjust, startswith) agree with the same operation on the concretised str/bytes;
  2. the nondeterministic int() model covers what CPython's int() does on every 1- and 2-character latin-1 string and on a
     structured set of longer strings (value within the modelled range, or ValueError);
  3. the format / Num model agrees with format(n, '0w') and with int() of the rendering;
  4. struct U32 model agrees with struct.pack/unpack.
Any disagreement aborts the check with exit status 2 (the machinery is wrong; nothing it says is to be believed).
"""
import random
import struct

from . import core, rope, models
from .rope import Source, Lit, Opq, Fill, Num, U32, mk, norm, concretize


class SelfCheckError(Exception):
    pass


def _ops_case(rnd):
    """one random rope with concrete structure but symbolic lengths pinned by assumptions; returns #comparisons"""
    n = 0
    kinds = 't'
    pieces = []
    names = []
    for i in range(rnd.randint(1, 4)):
        c = rnd.random()
        if c < 0.3:
            pieces.append(Lit(''.join(rnd.choice('abc019 @') for _ in range(rnd.randint(0, 5)))))
        elif c < 0.7:
            L = core.sym_int('L%d' % i, 0, 9)
            core.assume(core.s_eq(L, rnd.randint(0, 9)))
            pieces.append(Opq(Source('s%d' % i, 't', L), 0, L, ()))
        elif c < 0.85:
            k = core.sym_int('K%d' % i, 0, 5)
            core.assume(core.s_eq(k, rnd.randint(0, 5)))
            pieces.append(Fill(rnd.choice(' *0'), k))
        else:
            v = core.sym_int('N%d' % i, 0, 999)
            core.assume(core.s_eq(v, rnd.randint(0, 999)))
            pieces.append(Num(v, rnd.choice([2, 3])))
    r = norm('t', pieces)
    ev = core.ev
    memo = {}
    base = concretize(r, ev, memo) if isinstance(r, rope.Rope) else r
    # slices
    for _ in range(6):
        a = rnd.choice([None] + list(range(-12, 14)))
        b = rnd.choice([None] + list(range(-12, 14)))
        if isinstance(r, rope.Rope) and any(isinstance(p, Num) for p in r.pieces) and rnd.random() < 0.5:
            continue
        got = models.sh_getitem(r, slice(a, b))
        got = concretize(got, ev, memo) if isinstance(got, rope.Rope) else got
        if got != base[a:b]:
            raise SelfCheckError('slice [%r:%r] of %r: model %r, python %r' % (a, b, base, got, base[a:b]))
        n += 1
    # length
    if core.ev(models.sh_len(r)) != len(base):
        raise SelfCheckError('len of %r' % (base,))
    # codecs
    for enc in ('latin_1', 'cp500', 'cp037'):
        if isinstance(r, rope.Rope):
            e = r.encode(enc)
            ce = concretize(e, ev, memo) if isinstance(e, rope.Rope) else e
            if ce != base.encode(enc):
                raise SelfCheckError('encode %s of %r' % (enc, base))
            d = e.decode(enc) if isinstance(e, rope.Rope) else e.decode(enc)
            cd = concretize(d, ev, memo) if isinstance(d, rope.Rope) else d
            if cd != base:
                raise SelfCheckError('decode(encode) %s of %r' % (enc, base))
            same = (d == r) if isinstance(d, rope.Rope) else (r == d)
            if not same:
                raise SelfCheckError('decode(encode(x)) == x not recognised for %r' % (base,))
            n += 3
    # concatenation and justification
    if isinstance(r, rope.Rope):
        x = 'Q' + r + 'zz'
        cx = concretize(x, ev, memo) if isinstance(x, rope.Rope) else x
        if cx != 'Q' + base + 'zz':
            raise SelfCheckError('concatenation')
        w = rnd.randint(0, 20)
        j = r.ljust(w)
        cj = concretize(j, ev, memo) if isinstance(j, rope.Rope) else j
        if cj != base.ljust(w):
            raise SelfCheckError('ljust(%d) of %r: %r' % (w, base, cj))
        n += 2
    return n


def check_rope_ops(seed, cases=24):
    rnd = random.Random(seed)
    total = 0

    for _ in range(cases):
        box = {}

        def h():
            box['n'] = _ops_case(rnd_local)
        rnd_local = random.Random(rnd.random())
        state = rnd_local.getstate()

        def h2():
            rnd_local.setstate(state)       # the explorer may re-execute: same random structure on every execution
            box['n'] = _ops_case(rnd_local)
        ex = core.Explorer(deadline_s=20, stop_on_violation=True)
        try:
            ex.explore(h2)
        except SelfCheckError:
            raise
        for kind, info in ex.results:
            if kind != 'ok':
                raise SelfCheckError('rope self-check path ended with %s: %s' % (kind, info))
        if ex.inconclusive:
            raise SelfCheckError('rope self-check inconclusive: %s' % ex.inconclusive)
        total += box.get('n', 0)
    return total


def check_int_model():
    """every outcome of CPython's int() on short strings lies inside the modelled outcome set"""
    n = 0
    chars = [chr(i) for i in range(256)]
    samples = [a for a in chars] + [a + b for a in chars for b in '0123456789 -+_a\xb2'] + \
              [a + b for a in '0123456789 -+_' for b in chars]
    samples += ['-07', '+12', ' 12', '1_2', '012', '12 ', '\t9\n', '0_1', '_12', '12_', '-00', '999', '1000', '-999', '+999', ' +9', '٣٣', '\xb2\xb2\xb2']
    for s in samples:
        L = len(s)
        try:
            v = int(s)
        except ValueError:
            n += 1
            continue
        if not (-(10 ** (L - 1) - 1) <= v <= 10 ** L - 1):
            raise SelfCheckError('int(%r) = %d lies outside the modelled range for %d characters' % (s, v, L))
        # isdigit/int link assumptions
        if s.isdigit() and v < 0:
            raise SelfCheckError('isdigit/int link: %r' % s)
        if L == 1 and not s.isdigit():
            raise SelfCheckError('single character %r accepted by int() but not a digit' % s)
        if not s.isdigit() and v >= 0 and L >= 2 and not (v <= 10 ** (L - 1) - 1):
            raise SelfCheckError('non-digit text %r accepted by int() with a value needing all %d positions' % (s, L))
        n += 1
    return n


def check_format_model(seed, cases=300):
    rnd = random.Random(seed)
    n = 0
    for _ in range(cases):
        w = rnd.randint(1, 12)
        v = rnd.choice([0, 1, 9, 10, 99, 100, 999, 1000, 10 ** w - 1, 10 ** w, rnd.randint(0, 10 ** (w + 1))])
        p = Num(v, w)
        if p.length() != len(format(v, '0%d' % w)):
            raise SelfCheckError('Num(%d,%d).length()' % (v, w))
        if int(format(v, '0%dd' % w)) != v:
            raise SelfCheckError('format/int round trip')
        for fmt in ('>I', '<I'):
            x = rnd.randint(0, 0xFFFFFFFF)
            if struct.unpack(fmt, struct.pack(fmt, x))[0] != x:
                raise SelfCheckError('struct')
        n += 1
    return n


def run(seed=0):
    out = {}
    out['int_model_strings'] = check_int_model()
    out['format_cases'] = check_format_model(seed)
    out['rope_op_comparisons'] = check_rope_ops(seed)
    return out
