"""vsym.selfcheck -- differential validation of the abstract domain and the builtin models against CPython.

Run at the start of every check (seeded by VERIF_SEED).  It validates the *models*, not cardutil:
  1. rope operations (slice with Python semantics incl. negative / out-of-range bounds, concatenation, encode/decode with the three
     total codecs, equality, ljust/rjust, startswith) agree with the same operation on the concretised str/bytes;
  2. the nondeterministic int() model covers what CPython's int() does on every 1- and 2-character latin-1 string and on a
     structured set of longer strings (value within the modelled range, or ValueError);
  3. the format / Num model agrees with format(n, '0w') and with int() of the rendering;
  4. struct U32 model agrees with struct.pack/unpack.
Any disagreement aborts the check with exit status 2 (the machinery is wrong; nothing it says is to be believed).
"""
import random
import struct

from . import core, rope, models
from .rope import Source, Lit, Opq, Fill, Num, U32, mk, norm, concretize


class SelfCheckError(Exception):
    pass


def _ops_case(rnd):
    """one random rope with concrete structure but symbolic lengths pinned by assumptions; returns #comparisons"""
    n = 0
    kinds = 't'
    pieces = []
    names = []
    for i in range(rnd.randint(1, 4)):
        c = rnd.random()
        if c < 0.3:
            pieces.append(Lit(''.join(rnd.choice('abc019 @') for _ in range(rnd.randint(0, 5)))))
        elif c < 0.7:
            L = core.sym_int('L%d' % i, 0, 9)
            core.assume(core.s_eq(L, rnd.randint(0, 9)))
            pieces.append(Opq(Source('s%d' % i, 't', L), 0, L, ()))
        elif c < 0.85:
            k = core.sym_int('K%d' % i, 0, 5)
            core.assume(core.s_eq(k, rnd.randint(0, 5)))
            pieces.append(Fill(rnd.choice(' *0'), k))
        else:
            v = core.sym_int('N%d' % i, 0, 999)
            core.assume(core.s_eq(v, rnd.randint(0, 999)))
            pieces.append(Num(v, rnd.choice([2, 3])))
    r = norm('t', pieces)
    ev = core.ev
    memo = {}
    base = concretize(r, ev, memo) if isinstance(r, rope.Rope) else r
    # slices
    for _ in range(6):
        a = rnd.choice([None] + list(range(-12, 14)))
        b = rnd.choice([None] + list(range(-12, 14)))
        if isinstance(r, rope.Rope) and any(isinstance(p, Num) for p in r.pieces) and rnd.random() < 0.5:
            continue
        got = models.sh_getitem(r, slice(a, b))
        got = concretize(got, ev, memo) if isinstance(got, rope.Rope) else got
        if got != base[a:b]:
            raise SelfCheckError('slice [%r:%r] of %r: model %r, python %r' % (a, b, base, got, base[a:b]))
        n += 1
    # length
    if core.ev(models.sh_len(r)) != len(base):
        raise SelfCheckError('len of %r' % (base,))
    # codecs
    for enc in ('latin_1', 'cp500', 'cp037'):
        if isinstance(r, rope.Rope):
            e = r.encode(enc)
            ce = concretize(e, ev, memo) if isinstance(e, rope.Rope) else e
            if ce != base.encode(enc):
                raise SelfCheckError('encode %s of %r' % (enc, base))
            d = e.decode(enc) if isinstance(e, rope.Rope) else e.decode(enc)
            cd = concretize(d, ev, memo) if isinstance(d, rope.Rope) else d
            if cd != base:
                raise SelfCheckError('decode(encode) %s of %r' % (enc, base))
            same = (d == r) if isinstance(d, rope.Rope) else (r == d)
            if not same:
                raise SelfCheckError('decode(encode(x)) == x not recognised for %r' % (base,))
            n += 3
    # concatenation and justification
    if isinstance(r, rope.Rope):
        x = 'Q' + r + 'zz'
        cx = concretize(x, ev, memo) if isinstance(x, rope.Rope) else x
        if cx != 'Q' + base + 'zz':
            raise SelfCheckError('concatenation')
        w = rnd.randint(0, 20)
        j = r.ljust(w)
        cj = concretize(j, ev, memo) if isinstance(j, rope.Rope) else j
        if cj != base.ljust(w):
            raise SelfCheckError('ljust(%d) of %r: %r' % (w, base, cj))
        n += 2
    return n


def check_rope_ops(seed, cases=24):
    rnd = random.Random(seed)
    total = 0

    for _ in range(cases):
        box = {}

        def h():
            box['n'] = _ops_case(rnd_local)
        rnd_local = random.Random(rnd.random())
        state = rnd_local.getstate()

        def h2():
            rnd_local.setstate(state)       # the explorer may re-execute: same random structure on every execution
            box['n'] = _ops_case(rnd_local)
        ex = core.Explorer(deadline_s=20, stop_on_violation=True)
        try:
            ex.explore(h2)
        except SelfCheckError:
            raise
        for kind, info in ex.results:
            if kind != 'ok':
                raise SelfCheckError('rope self-check path ended with %s: %s' % (kind, info))
        if ex.inconclusive:
            raise SelfCheckError('rope self-check inconclusive: %s' % ex.inconclusive)
        total += box.get('n', 0)
    return total


def check_int_model():
    """every outcome of CPython's int() on short strings lies inside the modelled outcome set"""
    n = 0
    chars = [chr(i) for i in range(256)]
    samples = [a for a in chars] + [a + b for a in chars for b in '0123456789 -+_a\xb2'] + \
              [a + b for a in '0123456789 -+_' for b in chars]
    samples += ['-07', '+12', ' 12', '1_2', '012', '12 ', '\t9\n', '0_1', '_12', '12_', '-00', '999', '1000', '-999', '+999', ' +9', '٣٣', '\xb2\xb2\xb2']
    for s in samples:
        L = len(s)
        try:
            v = int(s)
        except ValueError:
            n += 1
            continue
        if not (-(10 ** (L - 1) - 1) <= v <= 10 ** L - 1):
            raise SelfCheckError('int(%r) = %d lies outside the modelled range for %d characters' % (s, v, L))
        # isdigit/int link assumptions
        if s.isdigit() and v < 0:
            raise SelfCheckError('isdigit/int link: %r' % s)
        if L == 1 and not s.isdigit():
            raise SelfCheckError('single character %r accepted by int() but not a digit' % s)
        if not s.isdigit() and v >= 0 and L >= 2 and not (v <= 10 ** (L - 1) - 1):
            raise SelfCheckError('non-digit text %r accepted by int() with a value needing all %d positions' % (s, L))
        n += 1
    return n


def check_format_model(seed, cases=300):
    rnd = random.Random(seed)
    n = 0
    for _ in range(cases):
        w = rnd.randint(1, 12)
        v = rnd.choice([0, 1, 9, 10, 99, 100, 999, 1000, 10 ** w - 1, 10 ** w, rnd.randint(0, 10 ** (w + 1))])
        p = Num(v, w)
        if p.length() != len(format(v, '0%d' % w)):
            raise SelfCheckError('Num(%d,%d).length()' % (v, w))
        if int(format(v, '0%dd' % w)) != v:
            raise SelfCheckError('format/int round trip')
        for fmt in ('>I', '<I'):
            x = rnd.randint(0, 0xFFFFFFFF)
            if struct.unpack(fmt, struct.pack(fmt, x))[0] != x:
                raise SelfCheckError('struct')
        n += 1
    for _ in range(40):
        data = bytes(rnd.randrange(256) for _ in range(rnd.randint(0, 16)))
        want = [c == '1' for c in ''.join('{:08b}'.format(b) for b in data)]
        if models.bits_of(data) != want:
            raise SelfCheckError('bits_of(%r)' % data)
        n += 1
    return n


def check_date_model(seed, cases=400):
    """the component model of datetime (strftime token, strptime of it in the same or another fixed-width format, two-digit-year
    window, day-of-month validity, int() of token fragments) against CPython"""
    import datetime
    rnd = random.Random(seed)
    fmts = ['%y%m%d%H%M%S', '%y%m%d', '%Y%m%d', '%m%d', '%H%M%S', '%Y-%m-%d %H:%M:%S', '%d/%m/%y', '%y%m', '%m%d%y']
    box = {'n': 0}

    def h():
        for _ in range(cases):
            f = rnd2.choice(fmts)
            y = rnd2.choice([1969, 1970, 1999, 2000, 2001, 2024, 2067, 2068, rnd2.randint(1969, 2068), rnd2.randint(1000, 9999)])
            mth = rnd2.randint(1, 12)
            day = rnd2.choice([1, 28, 29, 30, 31, rnd2.randint(1, 28)])
            try:
                real = datetime.datetime(y, mth, day, rnd2.randint(0, 23), rnd2.randint(0, 59), rnd2.randint(0, 59))
                ok = True
            except ValueError:
                ok = False
            valid = models._day_ok(y, mth, day)
            if bool(valid) != ok:
                raise SelfCheckError('day validity of %d-%d-%d: model %s, python %s' % (y, mth, day, bool(valid), ok))
            if not ok:
                continue
            d = models.SymDate('d', comps=dict(zip(models._COMPS, [real.year, real.month, real.day, real.hour, real.minute, real.second])))
            tok = d.strftime(f)
            txt = concretize(tok, core.ev)
            if txt != real.strftime(f):
                raise SelfCheckError('strftime %r of %s: model %r' % (f, real, txt))
            for g in (f, rnd2.choice(fmts)):
                try:
                    want = datetime.datetime.strptime(txt, g)
                except ValueError:
                    want = None
                try:
                    got = models.DateTimeLike.strptime(tok, g)
                    got = got.concrete(core.ev)
                except ValueError:
                    got = None
                except core.Unsupported:
                    continue
                if got != want:
                    raise SelfCheckError('strptime(%r, %r): model %s, python %s' % (txt, g, got, want))
                box['n'] += 1
            lay = models.date_layout(f)
            if all(dd for _, _, dd, _ in lay):
                if core.ev(models.sh_int(tok)) != int(txt):
                    raise SelfCheckError('int of date token %r' % txt)
                a, w = lay[0][0], lay[0][1]
                if core.ev(models.sh_int(tok[a:a + w])) != int(txt[a:a + w]):
                    raise SelfCheckError('int of date token fragment %r' % txt[a:a + w])
                box['n'] += 2
    rnd2 = random.Random(seed)
    state = rnd2.getstate()

    def h2():
        rnd2.setstate(state)
        box['n'] = 0
        h()
    ex = core.Explorer(deadline_s=60, stop_on_violation=True)
    ex.explore(h2)
    for kind, info in ex.results:
        if kind != 'ok':
            raise SelfCheckError('date self-check path ended with %s: %s' % (kind, info))
    return box['n']


def run(seed=0):
    out = {}
    out['date_model_comparisons'] = check_date_model(seed)
    out['int_model_strings'] = check_int_model()
    out['format_cases'] = check_format_model(seed)
    out['rope_op_comparisons'] = check_rope_ops(seed)
    return out
