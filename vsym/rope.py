"""vsym.rope -- content-abstract text/bytes with symbolic lengths ("ropes").

A rope is a sequence of pieces.  Lengths and offsets are python ints or SInt; payload content is
opaque (identified by source + offsets + the chain of codecs applied), so one symbolic run stands for
every concrete content.  Content that the code under test *inspects* is read through a per-source
peek table of lazily created byte variables.
"""
import codecs as _codecs
import struct as _struct

import z3

from . import core
from .core import SInt, SBool, Unsupported, same_int, s_and, s_or, s_not, s_eq, mk_int, mk_bool


def codec_name(enc):
    return _codecs.lookup(enc).name


TOTAL_CODECS = ('iso8859-1', 'cp500', 'cp037')     # single byte, total, bijective on 0..255


class Source:
    """an opaque run of characters / bytes"""
    _n = 0

    def __init__(self, name, kind, length):
        self.name = name
        self.kind = kind            # 't' or 'b': kind of the *base* content
        self.length = length
        self.peeks = []             # [(pos (int|SInt), chain, SInt byte value)]
        self.ints = {}              # memo of nondeterministic int() outcomes
        self.derived = {}

    def whole(self):
        return Opq(self, 0, self.length, ())

    def rope(self):
        return mk(self.kind, [self.whole()])

    def peek(self, pos, chain):
        """symbolic value (0..255 / code point) of element `pos` under codec chain `chain`.
        A peek through a chain of total single-byte codecs is a table look-up of the raw element, so that inspections of the same
        element before and after a decode/encode agree with each other (and with the witness built from the raw values)."""
        for p, ch, v in self.peeks:
            if ch == chain and same_int(p, pos):
                return v
        for p, ch, v in self.peeks:
            if ch == chain and not (isinstance(p, int) and isinstance(pos, int)):
                if s_eq(p, pos):           # forks
                    return v
        if chain:
            tab = _chain_table(self.kind, chain)
            if tab is not None:
                raw = self.peek(pos, ())
                v = core.STab(raw.t, 0, tab) if isinstance(raw, core.SInt) else tab[raw]
                self.peeks.append((pos, chain, v))
                return v
        v = core.cur().fresh_int('peek_%s_%d' % (self.name, len(self.peeks)), 0, 255)
        self.peeks.append((pos, chain, v))
        return v

    def __repr__(self):
        return '<%s>' % self.name


_CHAIN_TABLES = {}


def _chain_table(kind, chain):
    """256-entry table of a codec chain applied to one element, or None when some element has no single-element image"""
    key = (kind, chain)
    if key not in _CHAIN_TABLES:
        tab = []
        try:
            for b in range(256):
                x = bytes([b]) if kind == 'b' else chr(b)
                for op, c in chain:
                    x = x.encode(c) if op == 'e' else x.decode(c)
                if len(x) != 1:
                    raise ValueError
                tab.append(x[0] if isinstance(x, bytes) else ord(x))
                if tab[-1] > 255:
                    raise ValueError
        except Exception:
            tab = None
        _CHAIN_TABLES[key] = tab
    return _CHAIN_TABLES[key]


def known_source(v):
    """a source whose content is the concrete literal v (one per distinct literal and path)"""
    ex = core.cur()
    tab = ex.__dict__.setdefault('_known_sources', {})
    if tab.get('_path') != ex.stats.paths:
        tab.clear()
        tab['_path'] = ex.stats.paths
    src = tab.get(v)
    if src is None:
        src = Source('lit%d' % len(tab), 't' if isinstance(v, str) else 'b', len(v))
        src.known = v
        tab[v] = src
    return src


class Piece:
    __slots__ = ()
    atomic = False

    def kind_flip(self):
        return len(self.chain) % 2 == 1


class Lit(Piece):
    __slots__ = ('v',)
    chain = ()

    def __init__(self, v):
        self.v = v

    def length(self):
        return len(self.v)

    def cut(self, a, b):
        if not (isinstance(a, int) and isinstance(b, int)):
            v = self.v
            if len(v) > 8:
                if v == v[:1] * len(v):
                    return Fill(v[:1], b - a)          # homogeneous content: no need to know where the cut falls
                # keep the cut lazy: a view on a source whose content is known (offsets are only enumerated if
                # the content is ever compared with something else)
                return Opq(known_source(v), a, b, ())
            # short literal: enumerate the feasible offsets (exact; usually there is just one)
            ex = core.cur()
            a = ex.concretize(a, limit=len(v) + 2)
            b = ex.concretize(b, limit=len(v) + 2)
        return Lit(self.v[a:b])

    def recode(self, op, enc):
        return Lit(self.v.encode(enc) if op == 'e' else self.v.decode(enc))

    def __repr__(self):
        v = self.v
        return 'Lit(%r%s)' % (v[:24], '..' if len(v) > 24 else '')


def _push(chain, op, enc):
    if chain and chain[-1][1] == enc and chain[-1][0] != op:
        return chain[:-1]
    return chain + ((op, enc),)


class Opq(Piece):
    """elements [lo,hi) of an opaque source, after applying the codec chain"""
    __slots__ = ('src', 'lo', 'hi', 'chain')

    def __init__(self, src, lo, hi, chain=()):
        self.src = src
        self.lo = lo
        self.hi = hi
        self.chain = chain

    def length(self):
        return self.hi - self.lo

    def cut(self, a, b):
        return Opq(self.src, self.lo + a, self.lo + b, self.chain)

    def recode(self, op, enc):
        return Opq(self.src, self.lo, self.hi, _push(self.chain, op, enc))

    def __repr__(self):
        return 'Opq(%s,%s,%s%s)' % (self.src.name, _show(self.lo), _show(self.hi), ''.join(',%s:%s' % c for c in self.chain))


def _show(x):
    return str(x.t) if isinstance(x, SInt) else repr(x)


class Fill(Piece):
    __slots__ = ('ch', 'count')
    chain = ()

    def __init__(self, ch, count):
        self.ch = ch
        self.count = count

    def length(self):
        return self.count

    def cut(self, a, b):
        return Fill(self.ch, b - a)

    def recode(self, op, enc):
        return Fill(self.ch.encode(enc) if op == 'e' else self.ch.decode(enc), self.count)

    def __repr__(self):
        return 'Fill(%r,%s)' % (self.ch, _show(self.count))


class Atomic(Piece):
    """pieces that are only meaningful whole; a partial cut gives a Frag"""
    __slots__ = ()
    atomic = True

    def cut(self, a, b):
        if same_int(a, 0) and same_int(b, self.length()):
            return self
        if isinstance(a, int) and isinstance(b, int) and isinstance(self.length(), int):
            return Frag(self, a, b)
        if s_and(s_eq(a, 0), s_eq(b, self.length())):     # decided by the solver; forks only if both are possible
            return self
        return Frag(self, a, b)


class Num(Atomic):
    """decimal rendering of n >= 0, zero padded to width (wider when n >= 10**width, as Python does)"""
    __slots__ = ('n', 'width', 'chain', '_len')

    def __init__(self, n, width, chain=()):
        self.n = n
        self.width = width
        self.chain = chain
        self._len = None

    def length(self):
        if self._len is None:
            if isinstance(self.n, int):
                self._len = len(format(self.n, '0%d' % self.width))
            else:
                # decided by the solver on this path (forks only when an over-wide numeral is really possible)
                w = max(self.width, 1)
                while not (self.n < 10 ** w):
                    w += 1
                    if w > self.width + 20:
                        raise Unsupported('numeral far wider than its field')
                self._len = w
        return self._len

    def recode(self, op, enc):
        return Num(self.n, self.width, _push(self.chain, op, enc))

    def __repr__(self):
        return 'Num(%s,%d%s)' % (_show(self.n), self.width, ''.join(',%s:%s' % c for c in self.chain))


class U32(Atomic):
    """struct.pack(fmt, n) for a 4-byte format"""
    __slots__ = ('n', 'fmt')
    chain = ()

    def __init__(self, n, fmt):
        self.n = n
        self.fmt = fmt

    def length(self):
        return 4

    def recode(self, op, enc):
        # decoding packed binary as text: content is garbage but lengths are kept (single byte codecs)
        return Frag(self, 0, 4, ((op, enc),))

    def __repr__(self):
        return 'U32(%s,%r)' % (_show(self.n), self.fmt)


class Tok(Atomic):
    """strftime rendering of an opaque datetime"""
    __slots__ = ('d', 'fmt', 'width', 'chain')

    def __init__(self, d, fmt, width, chain=()):
        self.d = d
        self.fmt = fmt
        self.width = width
        self.chain = chain

    def length(self):
        return self.width

    def recode(self, op, enc):
        return Tok(self.d, self.fmt, self.width, _push(self.chain, op, enc))

    def __repr__(self):
        return 'Tok(%s,%r)' % (self.d, self.fmt)


class HexP(Atomic):
    """binascii.hexlify of an abstract bytes value (lower case unless .upper() was applied)"""
    __slots__ = ('inner', 'up', 'chain')

    def __init__(self, inner, up=False, chain=()):
        self.inner = inner          # bytes or BRope
        self.up = up
        self.chain = chain

    def length(self):
        return 2 * rlen(self.inner)

    def recode(self, op, enc):
        return HexP(self.inner, self.up, _push(self.chain, op, enc))

    def upper(self):
        return HexP(self.inner, True, self.chain)

    def __repr__(self):
        return 'HexP(%r%s)' % (self.inner, ',upper' if self.up else '')


class Frag(Piece):
    """elements [a,b) of an atomic piece"""
    __slots__ = ('base', 'a', 'b', 'chain')

    def __init__(self, base, a, b, chain=()):
        self.base = base
        self.a = a
        self.b = b
        self.chain = chain

    def length(self):
        return self.b - self.a

    def cut(self, a, b):
        return Frag(self.base, self.a + a, self.a + b, self.chain)

    def recode(self, op, enc):
        if isinstance(self.base, (Num, Tok)) and not self.chain:
            # single-byte codecs commute with cutting: push the codec into the atom
            return Frag(self.base.recode(op, enc), self.a, self.b)
        return Frag(self.base, self.a, self.b, _push(self.chain, op, enc))

    def __repr__(self):
        return 'Frag(%r,%s,%s)' % (self.base, _show(self.a), _show(self.b))


# ------------------------------------------------------------------ ropes

def mk(kind, pieces):
    return (TRope if kind == 't' else BRope)(pieces)


def _empty(kind):
    return '' if kind == 't' else b''


def norm(kind, pieces):
    """drop pieces that are syntactically empty, merge neighbours, collapse all-literal ropes to real str/bytes"""
    out = []
    for p in pieces:
        L = p.length()
        if isinstance(L, int) and L <= 0:
            continue
        if out:
            q = out[-1]
            if isinstance(p, Lit) and isinstance(q, Lit):
                out[-1] = Lit(q.v + p.v)
                continue
            if isinstance(p, Opq) and isinstance(q, Opq) and q.src is p.src and q.chain == p.chain and same_int(q.hi, p.lo):
                out[-1] = Opq(p.src, q.lo, p.hi, p.chain)
                continue
            if isinstance(p, Fill) and isinstance(q, Fill) and q.ch == p.ch:
                out[-1] = Fill(p.ch, q.count + p.count)
                continue
            if isinstance(p, Frag) and isinstance(q, Frag) and _same_piece(q.base, p.base) and q.chain == p.chain and \
                    (same_int(q.b, p.a) or s_eq(q.b, p.a)):        # undecided syntactically: the solver decides (may fork)
                if (same_int(q.a, 0) or s_eq(q.a, 0)) and (same_int(p.b, p.base.length()) or s_eq(p.b, p.base.length())) and not p.chain:
                    out[-1] = p.base
                else:
                    out[-1] = Frag(p.base, q.a, p.b, p.chain)
                continue
        out.append(p)
    if not out:
        return _empty(kind)
    if len(out) == 1 and isinstance(out[0], Lit):
        return out[0].v
    return mk(kind, out)


def as_rope(x, kind=None):
    if isinstance(x, Rope):
        return x
    if isinstance(x, str):
        return TRope([Lit(x)] if x else [])
    if isinstance(x, (bytes, bytearray)):
        return BRope([Lit(bytes(x))] if x else [])
    raise TypeError('not text/bytes: %r' % (type(x),))


def pieces_of(x):
    if isinstance(x, Rope):
        return x.pieces
    return [Lit(x)] if len(x) else []


def kind_of(x):
    if isinstance(x, Rope):
        return x.kind
    if isinstance(x, str):
        return 't'
    if isinstance(x, (bytes, bytearray)):
        return 'b'
    raise TypeError('not text/bytes: %r' % (type(x),))


def rlen(x):
    if isinstance(x, Rope):
        return x.length()
    return len(x)


class Rope:
    kind = None

    def __init__(self, pieces):
        self.pieces = pieces
        self._bounds = None

    def bounds(self):
        if self._bounds is None:
            b = [0]
            for p in self.pieces:
                b.append(b[-1] + p.length())
            self._bounds = b
        return self._bounds

    def length(self):
        return self.bounds()[-1]

    def __len__(self):
        n = self.length()
        if isinstance(n, int):
            return n
        raise Unsupported('builtin len() of a rope with symbolic length (unshadowed call site)')

    def __bool__(self):
        n = self.length()
        if isinstance(n, int):
            return n > 0
        return bool(n > 0)

    def _other(self, o):
        if isinstance(o, Rope):
            if o.kind != self.kind:
                raise TypeError("can't concat %s to %s" % (o.kind, self.kind))
            return o.pieces
        if isinstance(o, (str if self.kind == 't' else (bytes, bytearray))):
            return [Lit(o if self.kind == 't' else bytes(o))] if len(o) else []
        return None

    def __add__(self, o):
        ps = self._other(o)
        if ps is None:
            return NotImplemented
        return norm(self.kind, self.pieces + ps)

    def __radd__(self, o):
        ps = self._other(o)
        if ps is None:
            return NotImplemented
        return norm(self.kind, ps + self.pieces)

    def __mul__(self, k):
        raise Unsupported('rope repetition')

    # ---- slicing (exact Python semantics for step None)
    def __getitem__(self, sl):
        if not isinstance(sl, slice):
            if isinstance(sl, (int, SInt)) and not isinstance(sl, bool):
                n = self.length()
                i = sl
                if i < 0:
                    i = n + i
                if s_or(i < 0, i >= n):
                    raise IndexError('index out of range')
                one = self.cut(i, i + 1)
                if self.kind == 't':
                    return one
                if isinstance(one, (bytes, bytearray)):
                    return one[0]
                p = nonempty_pieces(one)[0]
                if isinstance(p, Opq):
                    return p.src.peek(p.lo, p.chain)
                if isinstance(p, Fill):
                    return p.ch[0]
                raise Unsupported('byte value of a %s piece' % type(p).__name__)
            raise Unsupported('indexing a rope with %r' % (sl,))
        if sl.step is not None:
            raise Unsupported('extended slice of a rope')
        n = self.length()
        a = self._clamp(sl.start, n, 0)
        b = self._clamp(sl.stop, n, n)
        return self.cut(a, b)

    @staticmethod
    def _clamp(x, n, default):
        if x is None:
            return default
        if isinstance(x, int) and isinstance(n, int):
            if x < 0:
                x = max(0, n + x)
            return min(x, n)
        if isinstance(x, int):
            if x >= 0:
                if x == 0:
                    return 0
                return x if (x <= n) else n        # may fork
            y = n + x
            return y if (y >= 0) else 0            # may fork
        if same_int(x, n):
            return n
        if x < 0:                                   # may fork
            y = n + x
            return y if (y >= 0) else 0
        return x if (x <= n) else n

    def cut(self, a, b):
        """elements [a,b) with 0 <= a, b <= len already clamped; b <= a gives empty"""
        bd = self.bounds()
        ia = ib = None
        for i, x in enumerate(bd):
            if ia is None and same_int(a, x):
                ia = i
            if same_int(b, x):
                ib = i
        if ia is not None and ib is not None:
            return norm(self.kind, self.pieces[ia:ib] if ib > ia else [])
        if b <= a:                      # may fork
            return _empty(self.kind)
        npieces = len(self.pieces)
        if ia is not None:
            i = ia
            lo = 0
        else:
            i = 0
            while i < npieces - 1 and (bd[i + 1] <= a):     # may fork: piece i ends at or before a
                i += 1
            lo = a - bd[i]
        out = []
        while i < npieces:
            p = self.pieces[i]
            if ib is not None:
                if i >= ib:
                    break
                ends_here = (i + 1 == ib)
                hi = p.length()
            else:
                ends_here = True if i == npieces - 1 else bool(b <= bd[i + 1])    # may fork
                hi = (b - bd[i]) if ends_here else p.length()
            if same_int(lo, 0) and same_int(hi, p.length()):
                out.append(p)
            else:
                out.append(p.cut(lo, hi))
            if ends_here:
                break
            i += 1
            lo = 0
        return norm(self.kind, out)

    # ---- codecs
    def _recode(self, op, enc, kind):
        enc = codec_name(enc)
        if enc in ('utf-8', 'ascii') and all(isinstance(p, HexP) or (isinstance(p, Lit) and p.v.isascii()) for p in self.pieces):
            return norm(kind, [p.recode(op, 'ascii') for p in self.pieces])
        if enc == 'ascii':
            return self._recode_ascii(op, kind)
        if enc == 'utf-8':
            # known content (literals, lazy views on literals) goes through the real codec, run by run (a multi-byte character may span
            # pieces); numerals / date tokens / hex renderings are ASCII by construction
            ps = nonempty_pieces(self)
            conc = lambda p: isinstance(p, (Lit, Fill)) or (isinstance(p, Opq) and getattr(p.src, 'known', None) is not None and not p.chain)
            asc = lambda p: isinstance(p, (Num, Tok, HexP)) or (isinstance(p, Frag) and isinstance(p.base, (Num, Tok, HexP)))
            if ps and all(conc(p) or asc(p) for p in ps):
                out, run = [], []

                def flush():
                    if run:
                        v = try_concrete(norm(self.kind, list(run)))
                        out.append(Lit(v.encode('utf-8') if op == 'e' else v.decode('utf-8')))
                        del run[:]
                for p in ps:
                    if conc(p):
                        run.append(p)
                    else:
                        flush()
                        out.append(p.recode(op, 'ascii'))
                flush()
                return norm(kind, out)
        if enc == 'utf-8' and op == 'd' and isinstance(self.length(), int) and self.length() <= 4 and \
                all(isinstance(p, Opq) and not p.chain for p in nonempty_pieces(self)):
            # a few arbitrary bytes decoded as UTF-8: pure ASCII decodes to itself; a first non-ASCII byte that cannot start a sequence
            # (0x80..0xC1, 0xF5..0xFF) is an error; anything else is beyond the model
            vals = [p.src.peek(p.lo + i, ()) for p in nonempty_pieces(self) for i in range(p.length())]
            if s_and(*[v < 128 for v in vals]):
                return norm(kind, [p.recode(op, 'ascii') for p in self.pieces])
            for v in vals:
                if v < 128:
                    continue
                if s_or(v < 0xc2, v > 0xf4):
                    raise UnicodeDecodeError('utf-8', b'\xff', 0, 1, 'invalid start byte [abstract]')
                break
            raise Unsupported('codec utf-8 on abstract content (multi-byte sequence)')
        if enc not in TOTAL_CODECS:
            raise Unsupported('codec %s on abstract content' % enc)
        return norm(kind, [p.recode(op, enc) for p in self.pieces])

    def _recode_ascii(self, op, kind):
        # partial codec: each opaque piece may nondeterministically fail
        out = []
        for p in self.pieces:
            if isinstance(p, (Lit, Fill)):
                out.append(p.recode(op, 'ascii'))
                continue
            if isinstance(p, (Num, Tok)):
                out.append(p.recode(op, 'ascii'))
                continue
            inverse = ('e' if op == 'd' else 'd')
            if getattr(p, 'chain', ()) and p.chain[-1][0] == inverse and codec_name(p.chain[-1][1]) == 'ascii':
                out.append(p.recode(op, 'ascii'))          # what was encoded with ascii decodes with ascii (and the other way round)
                continue
            ok = _ascii_ok(p)
            if not ok:
                if op == 'd':
                    raise UnicodeDecodeError('ascii', b'\xff', 0, 1, 'ordinal not in range(128) [abstract]')
                raise UnicodeEncodeError('ascii', '\xff', 0, 1, 'ordinal not in range(128) [abstract]')
            out.append(p.recode(op, 'ascii'))
        return norm(kind, out)

    def upper(self):
        out = []
        for p in self.pieces:
            if isinstance(p, Lit):
                out.append(Lit(p.v.upper()))
            elif isinstance(p, HexP):
                out.append(p.upper())
            else:
                raise Unsupported('upper() on abstract content')
        return norm(self.kind, out)

    def _just(self, width, fill, left):
        dflt = ' ' if self.kind == 't' else b' '
        fill = dflt if fill is None else fill
        if not isinstance(fill, type(dflt)) or len(fill) != 1:
            raise TypeError('the fill character must be exactly one character long')
        n = self.length()
        pad = core.s_max(width - n, 0)
        if isinstance(pad, int) and pad == 0:
            return self
        f = mk(self.kind, [Fill(fill, pad)])
        return (self + f) if left else (f + self)

    def ljust(self, width, fillchar=None):
        return self._just(width, fillchar, True)

    def rjust(self, width, fillchar=None):
        return self._just(width, fillchar, False)

    # ---- strip family: content dependent.  Known content (Lit / Fill) is stripped for real; at an opaque piece the number of
    # stripped elements is a bounded nondeterministic choice k in 0..STRIP_MAX (the inspected elements go through the peek table),
    # or "the whole piece consists of strip characters" (recorded on the source for the witness builder).
    STRIP_MAX = 1

    def _strip_side(self, chars, left):
        dflt = ' \t\n\r\x0b\x0c\x1c\x1d\x1e\x1f\x85\xa0' if self.kind == 't' else b' \t\n\r\x0b\x0c'
        chars = dflt if chars is None else chars
        vals = [ord(c) for c in chars] if self.kind == 't' else list(chars)
        ps = list(nonempty_pieces(self))
        ex = core.cur()
        while ps:
            p = ps[0] if left else ps[-1]
            if isinstance(p, Lit):
                v = p.v.lstrip(chars) if left else p.v.rstrip(chars)
                if len(v):
                    ps[0 if left else -1] = Lit(v)
                    break
                ps.pop(0 if left else -1)
                continue
            if isinstance(p, Fill):
                if (ord(p.ch) if self.kind == 't' else p.ch[0]) in vals:
                    ps.pop(0 if left else -1)
                    continue
                break
            if isinstance(p, Opq):
                L = p.length()
                mode = ex.choose('strip_%s' % p.src.name, self.STRIP_MAX + 2)      # 0..STRIP_MAX elements, or everything
                if mode == self.STRIP_MAX + 1:
                    if isinstance(L, int) and L <= 8:
                        # short piece: every element is inspected individually (any mixture of strip characters)
                        for i in range(L):
                            b = p.src.peek(p.lo + i, p.chain)
                            core.assume(s_or(*[s_eq(b, v) for v in vals]))
                    else:
                        p.src.__dict__.setdefault('fills', []).append((p.lo, p.hi, vals[0], p.chain))
                    ps.pop(0 if left else -1)
                    continue
                k = mode
                if not (k <= L):
                    raise core.PathAbort('piece shorter than the stripped run')
                for i in range(k):
                    pos = (p.lo + i) if left else (p.hi - 1 - i)
                    b = p.src.peek(pos, p.chain)
                    core.assume(s_or(*[s_eq(b, v) for v in vals]))
                if not same_int(L, k):
                    if k < L:
                        pos = (p.lo + k) if left else (p.hi - 1 - k)
                        b = p.src.peek(pos, p.chain)
                        core.assume(s_and(*[s_not(s_eq(b, v)) for v in vals]))
                        ps[0 if left else -1] = p.cut(k, L) if left else p.cut(0, L - k)
                        break
                    ps.pop(0 if left else -1)
                    continue
                ps.pop(0 if left else -1)
                continue
            base = p.base if isinstance(p, Frag) else p
            if isinstance(base, Num):
                digs = '0123456789'
                try:
                    enc = digs
                    for op, c in base.chain + (getattr(p, 'chain', ()) if isinstance(p, Frag) else ()):
                        enc = enc.encode(c) if op == 'e' else enc.decode(c)
                    dvals = [ord(x) for x in enc] if isinstance(enc, str) else list(enc)
                except Exception:
                    dvals = None
                if dvals is not None and not (set(dvals) & set(vals)):
                    break                       # a numeral never starts / ends with a strip character
            if isinstance(base, U32) and not isinstance(p, Frag) and base.fmt in ('>I', '!I'):
                k = 0
                while k < 4:
                    i = k if left else 3 - k
                    byte = (base.n // (256 ** (3 - i))) % 256
                    if s_or(*[s_eq(byte, v) for v in vals]):         # forks on the value of the edge byte
                        k += 1
                    else:
                        break
                if k == 4:
                    ps.pop(0 if left else -1)
                    continue
                if k:
                    ps[0 if left else -1] = Frag(base, k, 4) if left else Frag(base, 0, 4 - k)
                break
            raise Unsupported('strip reaching a %s piece' % type(base).__name__)
        return norm(self.kind, ps)

    def rstrip(self, chars=None):
        return self._strip_side(chars, False)

    def lstrip(self, chars=None):
        return self._strip_side(chars, True)

    def strip(self, chars=None):
        r = self._strip_side(chars, False)
        return r._strip_side(chars, True) if isinstance(r, Rope) else r.lstrip(chars)

    def __getattr__(self, name):
        # any other str/bytes method on abstract content: not expressible -> the obligation is inconclusive (never a pseudo-violation)
        if name.startswith('__'):
            raise AttributeError(name)
        if hasattr('' if self.kind == 't' else b'', name):
            raise Unsupported('%s.%s on abstract content' % ('str' if self.kind == 't' else 'bytes', name))
        raise AttributeError(name)

    def format(self, *args, **kwargs):
        """str.format with abstract text in the template: braces in the opaque part make the call fail (one nondeterministic outcome per
        opaque piece, honoured by the witness); otherwise the rendering of the message is not followed further"""
        if self.kind != 't':
            raise AttributeError('format')
        for p in nonempty_pieces(self):
            if isinstance(p, Opq):
                memo = p.src.__dict__.setdefault('braces', [])
                b = None
                for lo, hi, chain, b2 in memo:
                    if chain == p.chain and same_int(lo, p.lo) and same_int(hi, p.hi):
                        b = b2
                if b is None:
                    b = core.cur().fresh_bool('brace_in_%s' % p.src.name)
                    memo.append((p.lo, p.hi, p.chain, b))
                if s_and(b, p.length() >= 1):
                    raise ValueError("Single '}' encountered in format string [abstract]")
        lits = ''.join(p.v for p in self.pieces if isinstance(p, Lit))
        lits.format(*args, **kwargs)              # the literal part is a valid template for these arguments, or raises as it would
        return self

    def startswith(self, prefix, *range_):
        if range_:
            return self[slice(*range_)].startswith(prefix) if isinstance(self[slice(*range_)], Rope) else self[slice(*range_)].startswith(prefix)
        if isinstance(prefix, tuple):
            for p in prefix:
                if self.startswith(p):
                    return True
            return False
        n = rlen(prefix)
        return self[0:n] == prefix

    def endswith(self, suffix, *range_):
        if range_:
            sub = self[slice(*range_)]
            return sub.endswith(suffix)
        if isinstance(suffix, tuple):
            for p in suffix:
                if self.endswith(p):
                    return True
            return False
        n = rlen(suffix)
        L = self.length()
        if L < n:
            return False
        return self.cut(L - n, L) == suffix

    # ---- equality
    def __eq__(self, o):
        if isinstance(o, Rope):
            if o.kind != self.kind:
                return False
        elif isinstance(o, str):
            if self.kind != 't':
                return False
        elif isinstance(o, (bytes, bytearray)):
            if self.kind != 'b':
                return False
        else:
            return False
        return rope_eq(self, o)

    def __ne__(self, o):
        return s_not(self.__eq__(o))

    def __hash__(self):
        return 7

    def __repr__(self):
        return '%s%r' % ('T' if self.kind == 't' else 'B', self.pieces)


class TRope(Rope):
    kind = 't'

    def encode(self, encoding='utf-8', errors='strict'):
        return self._recode('e', encoding, 'b')

    def isdigit(self):
        from . import models
        return models.rope_isdigit(self)

    def isnumeric(self):
        return self.isdigit()


class BRope(Rope):
    kind = 'b'

    def __iter__(self):
        """byte values (ints / SInt); only for short ropes -- used by code such as any(prefix)"""
        out = []
        ex = core.cur()
        for p in nonempty_pieces(self):
            L = p.length()
            if not isinstance(L, int):
                L = ex.concretize(L, limit=20)
            if L > 16:
                raise Unsupported('iteration over a long abstract byte string')
            if isinstance(p, Lit):
                out.extend(p.v[:L])
            elif isinstance(p, Fill):
                out.extend([p.ch[0]] * L)
            elif isinstance(p, Opq):
                out.extend(p.src.peek(p.lo + i, p.chain) for i in range(L))
            else:
                base, a = (p.base, p.a) if isinstance(p, Frag) else (p, 0)
                if isinstance(base, U32) and base.fmt in ('>I', '!I') and not getattr(p, 'chain', ()):
                    if not isinstance(a, int):
                        a = ex.concretize(a, limit=6)
                    for i in range(a, a + L):
                        out.append((base.n // (256 ** (3 - i))) % 256 if not isinstance(base.n, int) else (base.n >> (8 * (3 - i))) & 255)
                else:
                    raise Unsupported('iteration over %s' % type(base).__name__)
        return iter(out)

    def decode(self, encoding='utf-8', errors='strict'):
        return self._recode('d', encoding, 't')


# ------------------------------------------------------------------ equality of ropes

def _elem_lit(v, i):
    return v[i] if isinstance(v, (bytes, bytearray)) else ord(v[i])


def _peek_eq_lit(p, off, lit_vals):
    """opaque piece p from offset off equals the given element values (list of ints)"""
    conds = []
    for k, val in enumerate(lit_vals):
        conds.append(s_eq(p.src.peek(p.lo + off + k, p.chain), val))
    return s_and(*conds)


PEEK_LIMIT = 24


ASCII_ELEMENTWISE = [False]          # switched on by the obligation that needs exact ASCII-ness of short pieces of symbolic length
core.PATH_RESET.append(lambda: ASCII_ELEMENTWISE.__setitem__(0, False))


def _ascii_ok(p):
    """is this opaque piece pure ASCII?  One outcome per (source, range): short pieces are decided by their elements (peek table), longer
    ones by a memoised nondeterministic outcome that the witness builder honours (a byte >= 0x80 at the end of a range that is not
    ASCII, none inside a range that is)"""
    if not isinstance(p, Opq):
        return core.cur().fresh_bool('ascii_ok')
    L = p.length()
    if ASCII_ELEMENTWISE[0] and not isinstance(L, int) and not p.chain and core.cur().must(L <= 24):
        L = core.cur().concretize(L, limit=32)          # short piece of symbolic length: decided element by element as well (opt-in: forks)
    if isinstance(L, int) and L <= (24 if ASCII_ELEMENTWISE[0] else 8) and not p.chain:
        return s_and(*[p.src.peek(p.lo + i, ()) < 128 for i in range(L)]) if L else True
    memo = p.src.__dict__.setdefault('ascii_ranges', [])
    for lo, hi, chain, b in memo:
        if chain == p.chain and same_int(lo, p.lo) and same_int(hi, p.hi):
            return b
    b = core.cur().fresh_bool('ascii_ok_%s' % p.src.name)
    # a range inside an ASCII range is ASCII; a range containing a non-ASCII range is not (for bounds that compare syntactically)
    for lo, hi, chain, b2 in memo:
        if chain != p.chain:
            continue
        d1, d2 = core.mk_int(core.lift(p.lo) - core.lift(lo)), core.mk_int(core.lift(hi) - core.lift(p.hi))
        if isinstance(d1, int) and isinstance(d2, int):
            if d1 >= 0 and d2 >= 0:
                core.assume(core.s_implies(b2, b))          # new range inside an old one
            elif d1 <= 0 and d2 <= 0:
                core.assume(core.s_implies(b, b2))          # old range inside the new one
    memo.append((p.lo, p.hi, p.chain, b))
    return b


def seg_eq(p, a, q, b, m):
    """content of p[a:a+m] equals q[b:b+m]?  -> bool / SBool (may fork only through the peek table)"""
    # views on known content: fall back to the literal (enumerates the offsets: exact)
    if isinstance(p, Opq) and getattr(p.src, 'known', None) is not None and not (isinstance(q, Opq) and q.src is p.src):
        p, a = _known_lit(p), 0
    if isinstance(q, Opq) and getattr(q.src, 'known', None) is not None and not (isinstance(p, Opq) and p.src is q.src):
        q, b = _known_lit(q), 0
    if isinstance(p, Lit) or isinstance(q, Lit):
        # offsets into concrete content: enumerate feasible values (exact)
        ex = core.cur()
        if isinstance(p, Lit) and not isinstance(a, int):
            a = ex.concretize(a, limit=len(p.v) + 2)
        if isinstance(q, Lit) and not isinstance(b, int):
            b = ex.concretize(b, limit=len(q.v) + 2)
        if not isinstance(m, int) and ((isinstance(p, Lit) and isinstance(q, (Lit, Fill))) or (isinstance(q, Lit) and isinstance(p, Fill))):
            m = ex.concretize(m, limit=max(len(x.v) for x in (p, q) if isinstance(x, Lit)) + 2)
    if isinstance(p, Lit) and isinstance(q, Lit):
        return p.v[a:a + m] == q.v[b:b + m]
    if isinstance(p, Fill) and isinstance(q, Fill):
        return s_or(p.ch == q.ch, s_eq(m, 0))
    for x, xa, y, yb in ((p, a, q, b), (q, b, p, a)):
        if isinstance(x, Fill) and isinstance(y, Lit):
            if not (isinstance(yb, int) and isinstance(m, int)):
                raise Unsupported('fill/literal comparison at symbolic offsets')
            seg = y.v[yb:yb + m]
            return seg == x.ch * m
    if isinstance(p, Opq) and isinstance(q, Opq):
        if p.src is q.src and p.chain == q.chain:
            return s_or(s_eq(p.lo + a, q.lo + b), s_eq(m, 0))
        return s_eq(m, 0)
    for x, xa, y, yb in ((p, a, q, b), (q, b, p, a)):
        if isinstance(x, Opq) and isinstance(y, (Lit, Fill)):
            if isinstance(m, int) and m <= PEEK_LIMIT and (isinstance(y, Fill) or isinstance(yb, int)):
                if isinstance(y, Lit):
                    vals = [_elem_lit(y.v, yb + k) for k in range(m)]
                else:
                    vals = [_elem_lit(y.ch, 0)] * m
                return _peek_eq_lit(x, xa, vals)
            # long run: only "is this whole stretch one repeated element?" is expressible -- a nondeterministic outcome, memoised per
            # stretch, that the witness builder honours by filling the stretch
            if isinstance(y, Fill) or (isinstance(yb, int) and isinstance(m, int) and len(set(y.v[yb:yb + m])) == 1):
                val = _elem_lit(y.ch, 0) if isinstance(y, Fill) else _elem_lit(y.v, yb)
                memo = x.src.__dict__.setdefault('allsame', [])
                for lo2, hi2, v2, ch2, b2 in memo:
                    if v2 == val and ch2 == x.chain and same_int(lo2, x.lo + xa) and same_int(hi2, x.lo + xa + m):
                        return s_or(b2, s_eq(m, 0))
                b = core.cur().fresh_bool('allsame_%s' % x.src.name, prefer=True)
                memo.append((x.lo + xa, x.lo + xa + m, val, x.chain, b))
                return s_or(b, s_eq(m, 0))
            core.note('imprecise', 'opaque content compared with literal of symbolic/large length: treated as different')
            return s_eq(m, 0)
    # atomic pieces and fragments of them: equal content iff the same atom (same parameters) at the same offset
    def _atom(z, off):
        if isinstance(z, Frag):
            return z.base, z.a + off, z.chain
        if z.atomic:
            return z, off, ()
        return None
    pa = _atom(p, a)
    qa = _atom(q, b)
    if pa is not None and qa is not None:
        if pa[2] != qa[2]:
            return s_eq(m, 0)
        return s_or(s_and(atom_same(pa[0], qa[0]), s_eq(pa[1], qa[1])), s_eq(m, 0))
    for x, xa, y, yb in ((p, a, q, b), (q, b, p, a)):
        if isinstance(x, Num) and isinstance(y, Lit):
            # numeral against literal digits: only whole-piece
            if isinstance(yb, int) and isinstance(m, int):
                seg = y.v[yb:yb + m]
                try:
                    txt = seg if isinstance(seg, str) else None
                    if txt is None:
                        txt = _decode_chain(seg, x.chain)
                    ok = txt is not None and txt.isascii() and txt.isdigit()
                except Exception:
                    ok = False
                if ok:
                    return s_and(s_eq(xa, 0), s_eq(m, x.length()), s_eq(x.n, int(txt)))
                return s_eq(m, 0)
        if isinstance(x, HexP) and isinstance(y, Lit):
            if isinstance(yb, int) and isinstance(m, int):
                seg = y.v[yb:yb + m]
                txt = seg.decode('latin_1') if isinstance(seg, bytes) else seg
                okcase = txt == (txt.upper() if x.up else txt.lower())
                try:
                    raw = bytes.fromhex(txt) if okcase and len(txt) % 2 == 0 else None
                except ValueError:
                    raw = None
                if raw is None:
                    return s_eq(m, 0)
                inner_eq = (x.inner == raw) if isinstance(x.inner, Rope) else (x.inner == raw)
                return s_and(s_eq(xa, 0), s_eq(m, x.length()), inner_eq)
        if isinstance(x, U32) and isinstance(y, Lit):
            if isinstance(yb, int) and isinstance(m, int) and m == 4:
                return s_and(s_eq(xa, 0), s_eq(x.n, _struct.unpack(x.fmt, y.v[yb:yb + 4])[0]))
            if isinstance(m, int) and m == 0:
                return True
    core.note('imprecise', 'comparison of %s with %s treated as different' % (type(p).__name__, type(q).__name__))
    return s_eq(m, 0)


def _known_lit(p):
    ex = core.cur()
    v = p.src.known
    lo = ex.concretize(p.lo, limit=len(v) + 2)
    hi = ex.concretize(p.hi, limit=len(v) + 2)
    out = v[lo:hi]
    for op, enc in p.chain:
        out = out.encode(enc) if op == 'e' else out.decode(enc)
    return Lit(out)


def nonempty_pieces(r):
    """pieces of a rope that are non-empty on this path (forks on symbolic lengths)"""
    out = []
    for p in pieces_of(r):
        L = p.length()
        if isinstance(L, int):
            if L > 0:
                out.append(p)
        elif L > 0:
            out.append(p)
    return out


def try_concrete(r, limit=64):
    """the concrete value if every non-empty piece on this path is literal / short fill, else None (may fork)"""
    if not isinstance(r, Rope):
        return r
    ps = nonempty_pieces(r)
    if not all(isinstance(p, (Lit, Fill)) or (isinstance(p, Opq) and getattr(p.src, 'known', None) is not None) for p in ps):
        return None
    out = []
    for p in ps:
        if isinstance(p, Lit):
            out.append(p.v)
        elif isinstance(p, Fill):
            c = p.count
            if not isinstance(c, int):
                c = core.cur().concretize(c, limit=limit)
            out.append(p.ch * c)
        else:
            out.append(_known_lit(p).v)
    return (b'' if r.kind == 'b' else '').join(out)


def whole_atom(r):
    """the atomic piece if the rope is exactly one whole atomic piece on this path (possibly wrapped in a full Frag), else None"""
    ps = nonempty_pieces(r)
    if len(ps) != 1:
        return None
    p = ps[0]
    if p.atomic:
        return p
    if isinstance(p, Frag) and not p.chain:
        if s_and(s_eq(p.a, 0), s_eq(p.b, p.base.length())):
            return p.base
    return None


def atom_same(u, v):
    """do two atomic pieces render the same content? -> bool / SBool"""
    if u is v:
        return True
    if type(u) is not type(v):
        return False
    if isinstance(u, Num):
        return s_and(u.width == v.width and u.chain == v.chain, s_eq(u.n, v.n))
    if isinstance(u, U32):
        return s_and(u.fmt == v.fmt, s_eq(u.n, v.n))
    if isinstance(u, Tok):
        if u.d is v.d and u.fmt == v.fmt and u.chain == v.chain:
            return True
        if u.chain == v.chain and u.width == v.width:
            # renderings of (possibly different) dates under (possibly different) all-digit formats: equal iff the numbers they spell are equal
            # ('010203' is 2001-02-03 under %y%m%d and 2003-02-01 under %d%m%y)
            try:
                from . import models
                fu, fv = models._digit_fields([Tok(u.d, u.fmt, u.width)]), models._digit_fields([Tok(v.d, v.fmt, v.width)])
            except Exception:
                fu = fv = None
            if fu and fv:
                def spelled(fs):
                    n = 0
                    for val, w in fs:
                        n = n * (10 ** w) + val
                    return n
                return s_eq(spelled(fu), spelled(fv))
        return False
    if isinstance(u, HexP):
        if u.up != v.up or u.chain != v.chain:
            return False
        return rope_eq(u.inner, v.inner)
    return False


def _decode_chain(seg, chain):
    if len(chain) == 1 and chain[0][0] == 'e':
        return seg.decode(chain[0][1])
    return None


def rope_eq(x, y):
    """exact content equality of two ropes / literals, as bool or SBool.
    Walks both piece lists with two cursors; forks only to align piece boundaries."""
    px = pieces_of(x)
    py = pieces_of(y)
    # fast path: identical structure
    if len(px) == len(py) and all(_same_piece(p, q) for p, q in zip(px, py)):
        return True
    lx = rlen(x)
    ly = rlen(y)
    if isinstance(lx, int) and isinstance(ly, int):
        if lx != ly:
            return False
    else:
        if not (s_eq(lx, ly)):         # forks: on the unequal side the ropes differ
            return False
    conds = []
    i = j = 0
    oi = oj = 0
    while i < len(px) and j < len(py):
        p = px[i]
        q = py[j]
        ra = p.length() - oi
        rb = q.length() - oj
        if _is_zero(ra):
            i += 1
            oi = 0
            continue
        if _is_zero(rb):
            j += 1
            oj = 0
            continue
        if same_int(ra, rb):
            m = ra
            adv_i = adv_j = True
        elif ra < rb:                   # may fork
            m = ra
            adv_i, adv_j = True, False
        else:
            if same_int(ra, rb) or (ra == rb):
                m = ra
                adv_i = adv_j = True
            else:
                m = rb
                adv_i, adv_j = False, True
        c = seg_eq(p, oi, q, oj, m)
        if c is False:
            return False
        if c is not True:
            conds.append(c)
        if adv_i:
            i += 1
            oi = 0
        else:
            oi = oi + m
        if adv_j:
            j += 1
            oj = 0
        else:
            oj = oj + m
    return s_and(*conds)


def _is_zero(x):
    if isinstance(x, int):
        return x == 0
    if x == 0:          # forks
        return True
    return False


def _same_piece(p, q):
    if p is q:
        return True
    if type(p) is not type(q):
        return False
    if isinstance(p, Lit):
        return type(p.v) is type(q.v) and p.v == q.v
    if isinstance(p, Opq):
        return p.src is q.src and p.chain == q.chain and same_int(p.lo, q.lo) and same_int(p.hi, q.hi)
    if isinstance(p, Fill):
        return p.ch == q.ch and same_int(p.count, q.count)
    if isinstance(p, Num):
        return p.width == q.width and p.chain == q.chain and same_int(p.n, q.n)
    if isinstance(p, U32):
        return p.fmt == q.fmt and same_int(p.n, q.n)
    if isinstance(p, Tok):
        return p.d is q.d and p.fmt == q.fmt and p.chain == q.chain
    if isinstance(p, HexP):
        return p.up == q.up and p.chain == q.chain and (p.inner is q.inner or (not isinstance(p.inner, Rope) and not isinstance(q.inner, Rope) and p.inner == q.inner)
                                                        or (isinstance(p.inner, Rope) and isinstance(q.inner, Rope) and _same_structure(p.inner, q.inner)))
    if isinstance(p, Frag):
        return _same_piece(p.base, q.base) and p.chain == q.chain and same_int(p.a, q.a) and same_int(p.b, q.b)
    return False


# ------------------------------------------------------------------ witness construction

def _codepoint_fill(src, n):
    """deterministic position-coded content for an opaque source (printable, codec safe)"""
    # letters, plus the characters whose EBCDIC code differs between cp500 and cp037 (a code-page mix-up shows in the witness)
    alphabet = 'ABCDEFGHIJKLMNOPQRSTUVWXYZabcdefghijklmnopqrstuvwxyz!^[]|\xe9\n\x1c"{},\\%='
    k = sum(ord(c) for c in src.name) % len(alphabet)
    return ''.join(alphabet[(k + 7 * i) % len(alphabet)] for i in range(n))


def concretize_source(src, ev):
    """concrete content of an opaque source under the model: position-coded, with peeked elements written in"""
    n = ev(src.length)
    if getattr(src, 'known', None) is not None:
        return src.known
    txt = list(_codepoint_fill(src, n))
    if src.kind == 'b':
        data = bytearray(''.join(txt).encode('latin_1'))
        # opaque binary content also carries the byte values that text-minded code trips over (line ends, NUL, 0xFF, pad and blank)
        special = (0x0a, 0x00, 0xff, 0x0d, 0x40, 0x20, 0x85, 0x1a)
        for i in range(6, n, 13):
            data[i] = special[(i // 13) % len(special)]
        # numerals that the code parsed out of this source (nondeterministic int() outcomes), written back as text
        for chain, d in src.derived.items():
            if isinstance(chain, tuple) and chain and chain[0] == 'bytes-int':
                chain = chain[1]
            for (lo, hi) in getattr(d, 'isdig', {}):
                if (lo, hi) not in d.ints:
                    d.ints[(lo, hi)] = (False, 0)
            for (lo, hi), (ok, val) in d.ints.items():
                a, b = ev(lo), ev(hi)
                w = b - a
                if w <= 0 or a < 0 or b > n:
                    continue
                dg = getattr(d, 'isdig', {}).get((lo, hi))
                dgv = None if dg is None else ev(dg)
                if ev(ok):
                    v = ev(val)
                    if v < 0:
                        t = '-' + format(-v, '0%d' % (w - 1))
                    elif dgv is False:
                        t = '+' + format(v, '0%d' % (w - 1))
                    else:
                        t = format(v, '0%d' % w)
                else:
                    t = ('\xb2' if dgv else 'x') * w      # superscript two: isdigit() is True, int() fails
                try:
                    enc = t
                    for op, c in reversed(chain):
                        enc = enc.encode(c) if op == 'd' else enc.decode(c)
                    if isinstance(enc, bytes) and len(enc) == w:
                        data[a:b] = enc
                except Exception:
                    pass
        for lo, hi, val, chain in src.__dict__.get('fills', []) + [(l, h, v, c) for l, h, v, c, b in src.__dict__.get('allsame', []) if ev(b)]:
            a, b = ev(lo), ev(hi)
            if chain:
                tab = _chain_table('b', chain)
                if tab is None or val not in tab:
                    continue
                val = tab.index(val)
            if 0 <= a <= b <= n:
                data[a:b] = bytes([val]) * (b - a)
        rng = [(ev(lo), ev(hi), ev(b)) for lo, hi, chain, b in src.__dict__.get('ascii_ranges', []) if not chain]
        for a, b, ok in rng:
            if not ok and 0 <= a < b <= n:
                data[b - 1] = 0xe9
        for a, b, ok in rng:
            if ok and 0 <= a <= b <= n:
                for i in range(a, b):
                    if data[i] >= 128:
                        data[i] = 0x41
        for pos, v in src.__dict__.get('u32s', []):
            p = ev(pos)
            if 0 <= p and p + 4 <= n:
                data[p:p + 4] = _struct.pack('>I', ev(v))
        for lo, hi, chain, b in src.__dict__.get('braces', []):
            if ev(b):
                a, e = ev(lo), ev(hi)
                tab = _chain_table('b', chain) if chain else list(range(256))
                if tab is not None and 0x7d in tab and 0 <= a < e <= n:
                    data[a] = tab.index(0x7d)
        for pos, chain, v in src.peeks:
            p = ev(pos)
            if 0 <= p < n and not chain:
                data[p] = ev(v)
        out = bytes(data)
    else:
        for lo, hi, val, chain in src.__dict__.get('fills', []):
            a, b = ev(lo), ev(hi)
            if 0 <= a <= b <= n:
                if not chain:
                    txt[a:b] = [chr(val)] * (b - a)
                elif len(chain) == 1 and chain[0][0] == 'e':
                    txt[a:b] = [bytes([val]).decode(chain[0][1])] * (b - a)
        for pos, chain, v in src.peeks:
            p = ev(pos)
            if 0 <= p < n and not chain:
                txt[p] = chr(ev(v))
            elif 0 <= p < n and len(chain) == 1 and chain[0][0] == 'e':
                # a byte of the encoded form was inspected: write the character that encodes to it
                try:
                    txt[p] = bytes([ev(v)]).decode(chain[0][1])
                except Exception:
                    pass
        out = ''.join(txt)
    return out


def concretize(x, ev, memo=None):
    """rope -> concrete str/bytes under model evaluation function ev"""
    if memo is None:
        memo = {}
    if not isinstance(x, Rope):
        return x
    parts = []
    for p in x.pieces:
        parts.append(_conc_piece(p, ev, memo, x.kind))
    return (''.join(parts)) if x.kind == 't' else b''.join(parts)


def _apply_chain(v, chain):
    for op, enc in chain:
        v = v.encode(enc) if op == 'e' else v.decode(enc)
    return v


def _conc_piece(p, ev, memo, kind):
    if isinstance(p, Lit):
        return p.v
    if isinstance(p, Fill):
        return p.ch * max(0, ev(p.count))
    if isinstance(p, Opq):
        key = id(p.src)
        if key not in memo:
            memo[key] = concretize_source(p.src, ev)
        base = memo[key]
        whole = _apply_chain(base, p.chain)
        return whole[ev(p.lo):ev(p.hi)]
    if isinstance(p, Num):
        return _apply_chain(format(ev(p.n), '0%d' % p.width), p.chain)
    if isinstance(p, U32):
        return _struct.pack(p.fmt, ev(p.n))
    if isinstance(p, Tok):
        return _apply_chain(p.d.render(p.fmt, ev), p.chain)
    if isinstance(p, HexP):
        inner = concretize(p.inner, ev, memo) if isinstance(p.inner, Rope) else p.inner
        h = inner.hex()
        h = h.upper() if p.up else h
        odd = len(p.chain) % 2 == 1
        return h if (kind == 't') else h.encode('ascii')
    if isinstance(p, Frag):
        whole = _conc_piece(p.base, ev, memo, kind)
        whole = _apply_chain(whole, p.chain)
        return whole[ev(p.a):ev(p.b)]
    raise TypeError(p)
