"""vsym.core -- path exploration of real Python code over z3 terms.

The real cardutil functions are executed by CPython on operator-overloading values (SInt, SBool,
ropes, symbolic strings).  Whenever the code needs a concrete truth value (`if`, `while`, `and`,
`not`, `in` ...) Python calls `__bool__`, which asks the Explorer.  The Explorer performs a
depth-first search over the tree of such decisions by re-executing the harness once per path
(decision-stack re-execution): the prefix of earlier decisions is replayed, the last open decision
is flipped.  Every decision is backed by a solver query (model-guided: the side satisfied by the
cached model of the path condition is known feasible, only the other side is queried), so

  * a path is explored iff its path condition is satisfiable,
  * when the search ends without `unknown`, every feasible path within the harness' stated input
    bounds has been executed to the end (exhaustive),
  * a failed requirement comes with a model = concrete counterexample.

Nothing here knows about cardutil.
"""
import os
import time
import z3

import re as _re
_SAFE = _re.compile(r'[^A-Za-z0-9_.]')
_CVC5 = [False]


def _cvc5():
    if _CVC5[0] is False:
        try:
            import cvc5
            _CVC5[0] = cvc5
        except Exception:
            _CVC5[0] = None
    return _CVC5[0]


def _cvc5_decide(smt2, tlimit_ms):
    """decide an SMT-LIB2 benchmark with cvc5 (in process) -> 'sat' / 'unsat' / 'unknown'"""
    cvc5 = _cvc5()
    try:
        slv = cvc5.Solver()
        slv.setOption('tlimit-per', str(tlimit_ms))
        slv.setLogic('ALL')
        p = cvc5.InputParser(slv)
        p.setStringInput(cvc5.InputLanguage.SMT_LIB_2_6, smt2, 'query')
        sm = p.getSymbolManager()
        res = 'unknown'
        while True:
            cmd = p.nextCommand()
            if cmd.isNull():
                break
            out = cmd.invoke(slv, sm).strip()
            if out in ('sat', 'unsat', 'unknown'):
                res = out
        return res
    except Exception as e:          # parse problems etc.: undecided, never a verdict
        return 'error: %s' % str(e)[:80]


class ControlFlow(BaseException):
    """base of exceptions used by the machinery; BaseException so that the code under test cannot swallow them"""


class PathAbort(ControlFlow):
    """the path is infeasible (an assumption cannot be met)"""


class Unsupported(ControlFlow):
    """the code under test used an operation the abstract domain cannot express"""


class OutOfFuel(ControlFlow):
    """loop budget exhausted: candidate non-termination"""


class Inconclusive(ControlFlow):
    """solver said unknown / budget exhausted: the whole obligation is inconclusive"""


class Violation(ControlFlow):
    """raised by fail(): property violated on this path"""
    def __init__(self, msg, detail=None):
        super().__init__(msg)
        self.msg = msg
        self.detail = detail


CUR = None          # the Explorer that is currently running a path


def cur():
    if CUR is None:
        raise RuntimeError('no exploration running')
    return CUR


# ------------------------------------------------------------------ symbolic scalars

def _is_num(t):
    return z3.is_int_value(t)


def lift(x):
    """python int / SInt -> z3 Int term"""
    if isinstance(x, SInt):
        return x.t
    if isinstance(x, bool):
        return z3.IntVal(1 if x else 0)
    if isinstance(x, int):
        return z3.IntVal(x)
    raise TypeError('cannot lift %r' % (type(x),))


_SIMPLIFY_CACHE = {}     # ast id -> (term kept alive, simplified python value or term)


def _simp(t, som):
    """memoised z3.simplify: re-execution of path prefixes rebuilds the same hash-consed terms over and over"""
    k = (t.get_id(), som)
    hit = _SIMPLIFY_CACHE.get(k)
    if hit is not None:
        return hit[1]
    s = z3.simplify(t, som=True) if som else z3.simplify(t)
    if len(_SIMPLIFY_CACHE) > 400000:
        _SIMPLIFY_CACHE.clear()
    _SIMPLIFY_CACHE[k] = (t, s)
    return s


def mk_int(t):
    """z3 Int term -> python int when it simplifies to a numeral, else SInt"""
    s = _simp(t, True)
    if z3.is_int_value(s):
        return s.as_long()
    return SInt(s)


def mk_bool(t):
    s = _simp(t, False)
    if z3.is_true(s):
        return True
    if z3.is_false(s):
        return False
    return SBool(s)


def is_sym(x):
    return isinstance(x, (SInt, SBool))


class SBool:
    __slots__ = ('t',)

    def __init__(self, t):
        self.t = t

    def __bool__(self):
        return cur().branch(self.t)

    def __and__(self, o):
        return mk_bool(z3.And(self.t, lift_bool(o)))
    __rand__ = __and__

    def __or__(self, o):
        return mk_bool(z3.Or(self.t, lift_bool(o)))
    __ror__ = __or__

    def __invert__(self):
        return mk_bool(z3.Not(self.t))

    def __eq__(self, o):
        if isinstance(o, (SBool, bool)):
            return mk_bool(self.t == lift_bool(o))
        return NotImplemented

    def __ne__(self, o):
        if isinstance(o, (SBool, bool)):
            return mk_bool(self.t != lift_bool(o))
        return NotImplemented

    def __hash__(self):
        return 3

    def __repr__(self):
        return 'SBool(%s)' % (self.t,)


def lift_bool(x):
    if isinstance(x, SBool):
        return x.t
    if isinstance(x, bool):
        return z3.BoolVal(x)
    raise TypeError('cannot lift %r to Bool' % (type(x),))


def s_not(x):
    return (not x) if isinstance(x, bool) else ~x


def s_and(*xs):
    ts = []
    for x in xs:
        if isinstance(x, bool):
            if not x:
                return False
        else:
            ts.append(x.t)
    if not ts:
        return True
    return mk_bool(z3.And(*ts))


def s_or(*xs):
    ts = []
    for x in xs:
        if isinstance(x, bool):
            if x:
                return True
        else:
            ts.append(x.t)
    if not ts:
        return False
    return mk_bool(z3.Or(*ts))


def s_implies(a, b):
    return s_or(s_not(a), b)


def s_ite(c, a, b):
    """fork-free if-then-else on ints"""
    if isinstance(c, bool):
        return a if c else b
    return mk_int(z3.If(c.t, lift(a), lift(b)))


class SInt:
    __slots__ = ('t',)

    def __init__(self, t):
        self.t = t

    # arithmetic
    def __add__(self, o):
        if isinstance(o, (int, SInt)):
            return mk_int(self.t + lift(o))
        return NotImplemented
    __radd__ = __add__

    def __sub__(self, o):
        if isinstance(o, (int, SInt)):
            return mk_int(self.t - lift(o))
        return NotImplemented

    def __rsub__(self, o):
        if isinstance(o, (int, SInt)):
            return mk_int(lift(o) - self.t)
        return NotImplemented

    def __mul__(self, o):
        if isinstance(o, int):
            return mk_int(self.t * o)
        if isinstance(o, SInt):
            return mk_int(self.t * o.t)
        return NotImplemented
    __rmul__ = __mul__

    def __neg__(self):
        return mk_int(-self.t)

    def __pos__(self):
        return self

    def _table(self):
        """this value as a lookup table over one small-range variable, if it has that shape (else None)"""
        return table_of_linear(self)

    def _posconst(self, o):
        if not isinstance(o, int) or isinstance(o, bool) or o <= 0:
            raise Unsupported('division of a symbolic int by %r' % (o,))
        return o

    def __floordiv__(self, o):
        # z3 integer division with a positive divisor is floor division, as in Python
        k = self._posconst(o)
        tb = self._table()
        if tb is not None:
            return tb.map(lambda v: v // k, self.t / k)
        sp = split_linear(self.t, k)
        if sp is not None:
            return sp[0]
        return mk_int(self.t / k)

    def __mod__(self, o):
        k = self._posconst(o)
        tb = self._table()
        if tb is not None:
            return tb.map(lambda v: v % k, self.t % k)
        sp = split_linear(self.t, k)
        if sp is not None:
            return sp[1]
        return mk_int(self.t % k)

    def __divmod__(self, o):
        return (self // o, self % o)

    # bit operations with a constant (non-negative values: bytes, lengths)
    def _nonneg(self):
        if not cur().must(mk_bool(self.t >= 0)):
            raise Unsupported('bit operation on a symbolic integer that may be negative')

    def __and__(self, m):
        if isinstance(m, bool) or not isinstance(m, int) or m < 0:
            raise Unsupported('bit-and of a symbolic integer with %r' % (m,))
        self._nonneg()
        out = 0
        k = 0
        while (m >> k):
            if (m >> k) & 1:
                # run of consecutive one bits [k, j)
                j = k
                while (m >> j) & 1:
                    j += 1
                out = out + ((self // (1 << k)) % (1 << (j - k))) * (1 << k)
                k = j
            else:
                k += 1
        return out
    __rand__ = __and__

    def __rshift__(self, k):
        if isinstance(k, int) and k >= 0:
            return self // (1 << k)
        raise Unsupported('shift by a symbolic amount')

    def __lshift__(self, k):
        if isinstance(k, int) and k >= 0:
            return self * (1 << k)
        raise Unsupported('shift by a symbolic amount')

    def __or__(self, m):
        if isinstance(m, bool) or not isinstance(m, int) or m < 0:
            raise Unsupported('bit-or of a symbolic integer with %r' % (m,))
        return self + m - (self & m)
    __ror__ = __or__

    def __xor__(self, m):
        if isinstance(m, bool) or not isinstance(m, int) or m < 0:
            raise Unsupported('bit-xor of a symbolic integer with %r' % (m,))
        return (self | m) - (self & m)
    __rxor__ = __xor__

    def __truediv__(self, o):
        # true division gives a float: kept as an unevaluated quotient; only int() of it is modelled (see models.sh_int)
        return SQuot(self, self._posconst(o))

    # comparisons
    def __lt__(self, o):
        return mk_bool(self.t < lift(o)) if isinstance(o, (int, SInt)) else NotImplemented

    def __le__(self, o):
        return mk_bool(self.t <= lift(o)) if isinstance(o, (int, SInt)) else NotImplemented

    def __gt__(self, o):
        return mk_bool(self.t > lift(o)) if isinstance(o, (int, SInt)) else NotImplemented

    def __ge__(self, o):
        return mk_bool(self.t >= lift(o)) if isinstance(o, (int, SInt)) else NotImplemented

    def __eq__(self, o):
        if isinstance(o, (int, SInt)):
            return mk_bool(self.t == lift(o))
        return False

    def __ne__(self, o):
        if isinstance(o, (int, SInt)):
            return mk_bool(self.t != lift(o))
        return True

    def __hash__(self):
        return 5

    def __bool__(self):
        return cur().branch(self.t != 0)

    def __index__(self):
        raise Unsupported('symbolic int used where CPython needs a machine integer (%s)' % (self.t,))

    def __repr__(self):
        return 'SInt(%s)' % (self.t,)


# ------------------------------------------------------------------ lookup tables over one small-range variable
#
# div / mod of a term that depends on a single variable with a small known range (a decimal digit) is replaced by a canonical
# lookup table If(x == lo, v0, If(x == lo+1, v1, ...)).  Every such replacement is a lemma "for all x in [lo, hi]: original == table"
# that is discharged by the solver once (and cached); two computations that agree digit-wise then yield syntactically equal terms,
# which is what makes sums over 20-40 digits tractable (the residual query no longer depends on the digits).

BOUNDS = {}            # z3 variable name -> (lo, hi), filled by Explorer.fresh_int
LEMMAS = {'proved': 0, 'seconds': 0.0}
_LEMMA_CACHE = {}


class STab(SInt):
    __slots__ = ('var', 'lo', 'vals')

    def __init__(self, var, lo, vals):
        self.var = var
        self.lo = lo
        self.vals = list(vals)
        t = z3.IntVal(self.vals[-1])
        for i in range(len(self.vals) - 2, -1, -1):
            t = z3.If(var == lo + i, z3.IntVal(self.vals[i]), t)
        SInt.__init__(self, t)

    def _table(self):
        return self

    def map(self, fn, original=None):
        new = STab(self.var, self.lo, [fn(v) for v in self.vals])
        if original is not None:
            prove_table_lemma(self.var, self.lo, self.lo + len(self.vals) - 1, original, new.t)
        return _norm_table(new)

    def _same(self, o):
        return isinstance(o, STab) and o.var.eq(self.var) and o.lo == self.lo and len(o.vals) == len(self.vals)

    def __add__(self, o):
        if isinstance(o, int) and not isinstance(o, bool):
            return self.map(lambda v: v + o)
        if self._same(o):
            return _norm_table(STab(self.var, self.lo, [a + b for a, b in zip(self.vals, o.vals)]))
        return SInt.__add__(self, o)
    __radd__ = __add__

    def __sub__(self, o):
        if isinstance(o, int) and not isinstance(o, bool):
            return self.map(lambda v: v - o)
        if self._same(o):
            return _norm_table(STab(self.var, self.lo, [a - b for a, b in zip(self.vals, o.vals)]))
        return SInt.__sub__(self, o)

    def __mul__(self, o):
        if isinstance(o, int) and not isinstance(o, bool):
            return self.map(lambda v: v * o)
        return SInt.__mul__(self, o)
    __rmul__ = __mul__


def _norm_table(tb):
    """constant and linear tables go back to plain terms (so that equal functions have equal terms)"""
    v = tb.vals
    if len(set(v)) == 1:
        return v[0]
    if len(v) >= 2:
        c = v[1] - v[0]
        if all(v[i + 1] - v[i] == c for i in range(len(v) - 1)):
            return mk_int(c * tb.var + (v[0] - c * tb.lo))
    return tb


def prove_table_lemma(var, lo, hi, original, table):
    key = (original.get_id(), table.get_id(), lo, hi)
    if key in _LEMMA_CACHE:
        return
    t0 = time.time()
    s = z3.Solver()
    s.set('timeout', 20000)
    s.add(var >= lo, var <= hi, original != table)
    r = s.check()
    LEMMAS['seconds'] += time.time() - t0
    if r != z3.unsat:
        raise Inconclusive('table lemma not proved (%s): %s' % (r, original))
    LEMMAS['proved'] += 1
    _LEMMA_CACHE[key] = (original, table)


def _lin1(t):
    """t == c*x + b for a single uninterpreted integer constant x ?  -> (x, c, b) or None"""
    if z3.is_int_value(t):
        return None
    k = t.decl().kind()
    if k == z3.Z3_OP_UNINTERPRETED and t.num_args() == 0:
        return (t, 1, 0)
    if k == z3.Z3_OP_MUL and t.num_args() == 2:
        a, b = t.arg(0), t.arg(1)
        if z3.is_int_value(a):
            r = _lin1(b)
            return None if r is None else (r[0], r[1] * a.as_long(), r[2] * a.as_long())
        if z3.is_int_value(b):
            r = _lin1(a)
            return None if r is None else (r[0], r[1] * b.as_long(), r[2] * b.as_long())
        return None
    if k == z3.Z3_OP_ADD:
        var, c, b = None, 0, 0
        for i in range(t.num_args()):
            a = t.arg(i)
            if z3.is_int_value(a):
                b += a.as_long()
                continue
            r = _lin1(a)
            if r is None or (var is not None and not r[0].eq(var)):
                return None
            var, c, b = r[0], c + r[1], b + r[2]
        return None if var is None else (var, c, b)
    return None


def _lin_multi(t):
    """t == sum(c_i * x_i) + b over uninterpreted integer constants?  -> ({name: (x, c)}, b) or None"""
    if z3.is_int_value(t):
        return ({}, t.as_long())
    k = t.decl().kind()
    if k == z3.Z3_OP_UNINTERPRETED and t.num_args() == 0:
        return ({t.decl().name(): (t, 1)}, 0)
    if k == z3.Z3_OP_MUL and t.num_args() == 2:
        a, b = t.arg(0), t.arg(1)
        if z3.is_int_value(b):
            a, b = b, a
        if z3.is_int_value(a):
            r = _lin_multi(b)
            if r is None:
                return None
            c = a.as_long()
            return ({n: (x, cc * c) for n, (x, cc) in r[0].items()}, r[1] * c)
        return None
    if k == z3.Z3_OP_ADD:
        coefs, const = {}, 0
        for i in range(t.num_args()):
            r = _lin_multi(t.arg(i))
            if r is None:
                return None
            for n, (x, c) in r[0].items():
                coefs[n] = (x, coefs.get(n, (x, 0))[1] + c)
            const += r[1]
        return (coefs, const)
    return None


def split_linear(t, k):
    """positional arithmetic: t = k*A + R with R a linear remainder whose range (from the variables' known bounds) lies in [0, k)
    => t div k == A and t mod k == R.  The schematic lemma (for all A, R: 0 <= R < k -> (k*A+R) div k == A and (k*A+R) mod k == R) is
    discharged by z3 once per k.  Returns (quotient, remainder) as int/SInt, or None when the shape does not apply."""
    r = _lin_multi(t)
    if r is None or len(r[0]) < 2:
        return None
    coefs, const = r
    lo = hi = const % k
    A = z3.IntVal(const // k)
    R = z3.IntVal(const % k)
    for n, (x, c) in coefs.items():
        bd = BOUNDS.get(n)
        if bd is None:
            return None
        q, rem = divmod(c, k)
        if q:
            A = A + q * x
        if rem:
            R = R + rem * x
            lo += rem * bd[0]
            hi += rem * bd[1]
    if lo < 0 or hi >= k:
        return None
    _prove_split_lemma(k)
    return (mk_int(A), mk_int(R))


def _prove_split_lemma(k):
    key = ('split', k)
    if key in _LEMMA_CACHE:
        return
    a, r = z3.Ints('lemma_A lemma_R')
    s = z3.Solver()
    s.set('timeout', 20000)
    s.add(r >= 0, r < k, z3.Or((k * a + r) / k != a, (k * a + r) % k != r))
    t0 = time.time()
    res = s.check()
    LEMMAS['seconds'] += time.time() - t0
    if res != z3.unsat:
        raise Inconclusive('split lemma for divisor %d not proved (%s)' % (k, res))
    LEMMAS['proved'] += 1
    _LEMMA_CACHE[key] = True


def table_of_linear(x):
    r = _lin1(x.t)
    if r is None:
        return None
    var, c, b = r
    bd = BOUNDS.get(var.decl().name())
    if bd is None or bd[1] - bd[0] > 40:
        return None
    lo, hi = bd
    return STab(var, lo, [c * v + b for v in range(lo, hi + 1)])


def table(x, fn):
    """canonical lookup table for fn applied to a small-range variable (for reference specifications in harnesses)"""
    tb = table_of_linear(x) if isinstance(x, SInt) else None
    if tb is None:
        raise Unsupported('table() needs a small-range variable')
    return tb.map(fn)


class SQuot:
    """x / k as CPython computes it (IEEE double), unevaluated.  int(x / k): exact floor for 0 <= x < 2**53 and k == 10 (the quotient is
    below 2**50 where doubles are spaced 1/8 apart and the fraction j/10 never rounds across an integer); otherwise any integer within
    the rounding error of the division -- a nondeterministic value, so precision loss on long numbers is visible to the solver"""
    def __init__(self, x, k):
        self.x = x
        self.k = k

    def to_int(self):
        x, k = self.x, self.k
        if k == 10:
            if s_and(x >= 0, x < 2 ** 53):
                return x // k
        ex = cur()
        q = ex.fresh_int('floatdiv')
        err = (x // (2 ** 50)) + k + 1 if not isinstance(x, int) else abs(x) // (2 ** 50) + k + 1
        ex.assume(mk_bool(lift(q) * k - lift(x) <= lift(err)))
        ex.assume(mk_bool(lift(x) - lift(q) * k <= lift(err)))
        return q

    def __int__(self):
        raise Unsupported('int() of a symbolic float outside the shadowed call sites')


def s_min(a, b):
    if isinstance(a, int) and isinstance(b, int):
        return min(a, b)
    return mk_int(z3.If(lift(a) <= lift(b), lift(a), lift(b)))


def s_max(a, b):
    if isinstance(a, int) and isinstance(b, int):
        return max(a, b)
    return mk_int(z3.If(lift(a) >= lift(b), lift(a), lift(b)))


def s_eq(a, b):
    """equality of ints as bool/SBool (never forks)"""
    if isinstance(a, int) and isinstance(b, int):
        return a == b
    return mk_bool(lift(a) == lift(b))


def s_iff(a, b):
    """equivalence of truth values as bool/SBool (never forks)"""
    if isinstance(a, bool) and isinstance(b, bool):
        return a == b
    ta = a.t if isinstance(a, SBool) else z3.BoolVal(bool(a))
    tb = b.t if isinstance(b, SBool) else z3.BoolVal(bool(b))
    return mk_bool(ta == tb)


def same_int(a, b):
    """syntactic: do a and b denote the same integer for sure (no solver call)?"""
    if isinstance(a, int) and isinstance(b, int):
        return a == b
    d = mk_int(lift(a) - lift(b))
    return isinstance(d, int) and d == 0


# ------------------------------------------------------------------ the explorer

class Stats:
    def __init__(self):
        self.paths = 0
        self.paths_ok = 0
        self.paths_aborted = 0
        self.queries = 0
        self.solver_s = 0.0
        self.unknowns = 0
        self.max_depth = 0


class Explorer:
    def __init__(self, max_paths=200000, deadline_s=None, query_timeout_ms=60000, stop_on_violation=True):
        self.solver = z3.Solver()
        self.query_timeout_ms = query_timeout_ms
        self.fast_timeout_ms = 4000
        self.crosscheck_every = int(os.environ.get('VSYM_CROSSCHECK_EVERY', '0') or 0)
        self.crosscheck_first = 40
        self.crosscheck_cap = int(os.environ.get('VSYM_CROSSCHECK_CAP', '400') or 400)
        self._last_model_solver = self.solver
        self.stats = Stats()
        self.max_paths = max_paths
        self.deadline = (time.time() + deadline_s) if deadline_s else None
        self.stop_on_violation = stop_on_violation
        self.stack = []           # entries [value, other_pending, model_for_other, payload]
        self.pos = 0
        self.model = None
        self.named = []           # (name, z3 term) inputs of the current path, for witness extraction
        self.counters = {}
        self.log = []             # per path free-form notes (stub decisions)
        self.results = []         # (kind, info) per path
        self.exhausted = False
        self.inconclusive = None
        self.fuel = None
        self.prefer = {}          # z3 ast id of a Bool constant -> outcome to explore first

    # -- solver helpers
    def _check(self, *extra):
        t0 = time.time()
        self.solver.set('timeout', self.fast_timeout_ms)
        r = self.solver.check(*extra)
        self._last_model_solver = self.solver
        if r == z3.unknown:
            # the incremental core gave up quickly: decide the same query with a fresh, non-incremental solver (full preprocessing)
            fresh = z3.Solver()
            fresh.set('timeout', self.query_timeout_ms)
            fresh.add(self.solver.assertions())
            fresh.add(*extra)
            r = fresh.check()
            self._last_model_solver = fresh
            self.stats.fresh_solver_queries = getattr(self.stats, 'fresh_solver_queries', 0) + 1
        self.stats.solver_s += time.time() - t0
        self.stats.queries += 1
        if r == z3.unknown:
            self.stats.unknowns += 1
            raise Inconclusive('solver returned unknown: %s' % self._last_model_solver.reason_unknown())
        if r == z3.unsat:
            self._crosscheck(extra)
        return r == z3.sat

    def _model(self):
        return self._last_model_solver.model()

    # -- second solver: a sample of the `unsat` answers (the ones that prune paths / discharge requirements) is re-decided by cvc5
    def _crosscheck(self, extra):
        st = self.stats
        st.unsat_answers = getattr(st, 'unsat_answers', 0) + 1
        if not self.crosscheck_every or _cvc5() is None:
            return
        if st.unsat_answers % self.crosscheck_every and st.unsat_answers > self.crosscheck_first:
            return
        if getattr(st, 'crosschecked', 0) >= self.crosscheck_cap:
            return
        t0 = time.time()
        tmp = z3.Solver()
        tmp.add(self.solver.assertions())
        tmp.add(*extra)
        verdict = _cvc5_decide(tmp.to_smt2(), 20000)
        st.crosscheck_s = getattr(st, 'crosscheck_s', 0.0) + time.time() - t0
        st.crosschecked = getattr(st, 'crosschecked', 0) + 1
        if verdict == 'unsat':
            st.crosscheck_agree = getattr(st, 'crosscheck_agree', 0) + 1
        elif verdict == 'sat':
            st.crosscheck_disagree = getattr(st, 'crosscheck_disagree', 0) + 1
            raise Inconclusive('solvers disagree: z3 says unsat, cvc5 says sat')
        else:
            st.crosscheck_undecided = getattr(st, 'crosscheck_undecided', 0) + 1

    def _holds_in_model(self, cond):
        if self.model is None:
            return None
        v = self.model.eval(cond, model_completion=True)
        if z3.is_true(v):
            return True
        if z3.is_false(v):
            return False
        return None

    # -- called from symbolic values
    def branch(self, cond, payload=None):
        cond = _simp(cond, False)
        if z3.is_true(cond):
            return True
        if z3.is_false(cond):
            return False
        if self.deadline and time.time() > self.deadline:
            raise Inconclusive('time budget exhausted')
        if self.pos < len(self.stack):
            v = self.stack[self.pos][0]
            self.pos += 1
            self.solver.add(cond if v else z3.Not(cond))
            return v
        mv = self._holds_in_model(cond)
        if mv is None:
            # no usable model: establish one for the path so far
            if not self._check():
                raise PathAbort('path condition unsatisfiable')
            self.model = self._model()
            mv = self._holds_in_model(cond)
            if mv is None:
                mv = True if self._check(cond) else False
                if mv:
                    self.model = self._model()
        other = z3.Not(cond) if mv else cond
        if self._check(other):
            pref = self.prefer.get(cond.get_id()) if self.prefer else None
            if pref is not None and pref != mv:
                # both sides are feasible and the model marked one outcome as the interesting one: take it first
                # (the search order changes, not the set of explored paths)
                m_other = self._model()
                m_this = self.model
                if m_this is None or self._holds_in_model(cond if mv else z3.Not(cond)) is not True:
                    self._check(cond if mv else z3.Not(cond))
                    m_this = self._model()
                entry = [pref, True, m_this, payload]
                self.model = m_other
                mv = pref
            else:
                entry = [mv, True, self._model(), payload]
        else:
            entry = [mv, False, None, payload]
        self.stack.append(entry)
        self.pos += 1
        self.solver.add(cond if mv else z3.Not(cond))
        if len(self.stack) > self.stats.max_depth:
            self.stats.max_depth = len(self.stack)
        return mv

    def assume(self, cond):
        """restrict the path to `cond` (bounds and validity predicates)"""
        if isinstance(cond, bool):
            if not cond:
                raise PathAbort('assumption false')
            return
        if isinstance(cond, SBool):
            cond = cond.t
        cond = z3.simplify(cond)
        if z3.is_true(cond):
            return
        if z3.is_false(cond):
            raise PathAbort('assumption false')
        self.solver.add(cond)
        mv = self._holds_in_model(cond)
        if mv is True:
            return
        if not self._check():
            raise PathAbort('assumption unsatisfiable')
        self.model = self._model()

    def _uniq(self, name):
        name = _SAFE.sub('_', name)          # SMT-LIB friendly symbols (the second solver parses the printed queries)
        n = self.counters.get(name, 0)
        self.counters[name] = n + 1
        return name if n == 0 else '%s.%d' % (name, n)

    def fresh_int(self, name, lo=None, hi=None, named=True):
        nm = self._uniq(name)
        v = z3.Int(nm)
        if named:
            self.named.append((nm, v))
        x = SInt(v)
        if lo is not None:
            self.assume(v >= lo)
        if hi is not None:
            self.assume(v <= hi)
        if isinstance(lo, int) and isinstance(hi, int):
            BOUNDS[nm] = (lo, hi)
        return x

    def fresh_bool(self, name, prefer=None):
        nm = self._uniq(name)
        v = z3.Bool(nm)
        self.named.append((nm, v))
        if prefer is not None:
            self.prefer[v.get_id()] = prefer
        return SBool(v)

    def fresh_bv(self, name, bits):
        nm = self._uniq(name)
        v = z3.BitVec(nm, bits)
        self.named.append((nm, v))
        return v

    def choose(self, name, n):
        """nondeterministic choice 0..n-1, explored exhaustively (forks)"""
        if n <= 1:
            return 0
        c = self.fresh_int(name, 0, n - 1)
        lo, hi = 0, n - 1          # binary splitting: depth log2(n)
        while lo < hi:
            mid = (lo + hi) // 2
            if self.branch(c.t <= mid):
                hi = mid
            else:
                lo = mid + 1
        return lo

    def concretize(self, x, limit=4096):
        """enumerate the feasible values of x by forking; returns a python int on each path"""
        if isinstance(x, int):
            return x
        for _ in range(limit):
            if self.pos < len(self.stack) and self.stack[self.pos][3] is not None:
                v = self.stack[self.pos][3]        # replay: the value chosen when this decision was first made
            else:
                m = self.current_model()
                v = m.eval(x.t, model_completion=True).as_long()
            if self.branch(x.t == v, payload=v):
                return v
        raise Unsupported('too many values to enumerate for %s' % (x,))

    def current_model(self):
        if self.model is None:
            if not self._check():
                raise PathAbort('path condition unsatisfiable')
            self.model = self._model()
        return self.model

    def ev(self, x):
        """value of x (int / SInt / SBool / z3 term) in a model of the current path"""
        if isinstance(x, (int, bool, str, bytes)) or x is None:
            return x
        m = self.current_model()
        t = x.t if isinstance(x, (SInt, SBool)) else x
        v = m.eval(t, model_completion=True)
        if z3.is_int_value(v) or z3.is_bv_value(v):
            return v.as_long()
        if z3.is_true(v):
            return True
        if z3.is_false(v):
            return False
        raise RuntimeError('cannot evaluate %s' % (t,))

    def note(self, *a):
        self.log.append(a)

    def must(self, cond):
        """True iff the path condition implies cond (one query, no fork)"""
        if isinstance(cond, bool):
            return cond
        t = cond.t if isinstance(cond, SBool) else cond
        try:
            return not self._check(z3.Not(t))
        except Inconclusive:
            return False

    def _concolic_fallback(self, u, models=3):
        """the abstract domain cannot follow this path any further: hand the inputs of the path, concretised by the solver (up to
        `models` different models of the path condition), to the harness's replay on the real code.  A replay that shows a violation
        is a solver-produced, reproduced counterexample; anything else leaves the obligation inconclusive."""
        fb = self.fallback
        if fb is None or getattr(self, 'n_candidates', 0) >= 60:
            return
        replay, key, what = fb
        ints = [v for _, v in self.named if z3.is_int(v)]

        def emit():
            try:
                self.model = None
                self.current_model()
                rp = replay() if callable(replay) else replay
            except ControlFlow:
                return False
            except Exception:
                return False
            if not rp:
                return False
            self.results.append(('candidate', Violation('unsupported operation (%s); inputs of the path concretised by the solver and run on the real code' % (str(u)[:80],),
                                                         {'key': key, 'replay': rp})))
            self.n_candidates = getattr(self, 'n_candidates', 0) + 1
            return True

        def extreme(hi):
            """a model in which the declared inputs are pushed, one after the other, to the low / high end of their declared range"""
            self.solver.push()
            try:
                for v in ints[:24]:
                    b = BOUNDS.get(str(v))
                    if not b:
                        continue
                    for val in ((b[1], b[1] - 1) if hi else (b[0], b[0] + 1)):
                        try:
                            if self._check(v == val):
                                self.solver.add(v == val)
                                break
                        except Inconclusive:
                            break
                return emit()
            finally:
                self.solver.pop()
        def scrambled(mul=7, add=3):
            """a model in which the declared inputs take spread-out, mutually different values (all-equal digits hide order-dependent faults)"""
            self.solver.push()
            try:
                for i, v in enumerate(ints[:40]):
                    b = BOUNDS.get(str(v))
                    if not b:
                        continue
                    val = b[0] + (mul * i * i + add * i + add) % (b[1] - b[0] + 1)
                    try:
                        if self._check(v == val):
                            self.solver.add(v == val)
                    except Inconclusive:
                        break
                return emit()
            finally:
                self.solver.pop()
        try:
            if not emit() or not callable(replay):
                return
            extreme(False)
            extreme(True)
            scrambled()
            scrambled(3, 5)
            if models > 3:
                m = self.model
                diff = [v != m.eval(v, model_completion=True) for v in ints]
                if diff:
                    self.solver.push()
                    self.solver.add(z3.Or(*diff))
                    emit()
                    self.solver.pop()
        except Inconclusive:
            pass
        finally:
            self.model = None

    # -- driver
    def explore(self, fn):
        """run fn() once per feasible path.  fn returns normally (path ok) or raises."""
        global CUR
        self.stack = []
        first = True
        try:
            while True:
                if not first:
                    while self.stack and not self.stack[-1][1]:
                        self.stack.pop()
                    if not self.stack:
                        self.exhausted = True
                        break
                    e = self.stack[-1]
                    self.stack[-1] = [not e[0], False, None, e[3]]
                    self.model = e[2]
                else:
                    self.model = None
                first = False
                if self.stats.paths >= self.max_paths:
                    self.inconclusive = 'path budget (%d) exhausted' % self.max_paths
                    break
                if self.deadline and time.time() > self.deadline:
                    self.inconclusive = 'time budget exhausted'
                    break
                self.pos = 0
                self.named = []
                self.counters = {}
                self.log = []
                self.fallback = None
                for hook in PATH_RESET:
                    hook()
                FUEL.left = None            # a loop budget never leaks from one path (or one obligation in the same worker) into the next
                self.solver.push()
                CUR = self
                self.stats.paths += 1
                try:
                    try:
                        info = fn()
                        # make sure the path really is feasible before counting it
                        self.current_model()
                        self.stats.paths_ok += 1
                        self.results.append(('ok', info))
                    except PathAbort:
                        self.stats.paths_aborted += 1
                    except Violation as v:
                        self.results.append(('violation', v))
                        self.n_violations = getattr(self, 'n_violations', 0) + 1
                        if self.stop_on_violation or self.n_violations >= getattr(self, 'max_violations', 1 << 30):
                            break
                    except Unsupported as u:
                        self.results.append(('unsupported', str(u)))
                        self.inconclusive = 'unsupported: %s' % (u,)
                        self._concolic_fallback(u)
                    except OutOfFuel as u:
                        self.results.append(('fuel', u))
                        if self.stop_on_violation:
                            break
                    except Inconclusive as u:
                        self.inconclusive = str(u)
                        break
                    except Exception as u:
                        # an ordinary exception that came out of the harness (typically: the changed code under test handed an abstract value to
                        # native code, or a harness assumption about the shape of a result no longer holds): not a verdict - the path is
                        # unsupported and its inputs go to the concrete replay
                        import traceback
                        tb = traceback.extract_tb(u.__traceback__)
                        where = '%s:%d' % (os.path.basename(tb[-1].filename), tb[-1].lineno) if tb else '?'
                        msg = '%s at %s: %s' % (type(u).__name__, where, str(u)[:100])
                        self.results.append(('unsupported', msg))
                        self.inconclusive = 'unsupported: %s' % msg
                        self._concolic_fallback(msg)
                finally:
                    CUR = None
                    self.solver.pop()
        finally:
            CUR = None
        return self


# ------------------------------------------------------------------ harness vocabulary

def sym_int(name, lo=None, hi=None):
    return cur().fresh_int(name, lo, hi)


def assume(c):
    cur().assume(c)


def _materialise(detail):
    rp = detail.get('replay')
    if callable(rp):
        detail['replay'] = rp()          # evaluated now, while the violating path's model is current
    return detail


def fail(msg, **detail):
    raise Violation(msg, _materialise(detail))


def require(cond, msg, **detail):
    """assert-as-branch: the violating side, if feasible, is executed and raises Violation with a model"""
    if cond:
        return
    raise Violation(msg, _materialise(detail))


def ev(x):
    return cur().ev(x)


def set_fallback(replay, key, what='code under test'):
    """harness: from here on the inputs of the path are declared; `replay` (evaluated under a model) describes them for a concrete run"""
    cur().fallback = (replay, key, what)


def note(*a):
    cur().note(*a)


class Fuel:
    """loop budget (loader normalisation N3)"""
    def __init__(self):
        self.left = None

    def set(self, n):
        self.left = n

    def tick(self):
        if self.left is None:
            return
        self.left -= 1
        if self.left < 0:
            raise OutOfFuel('loop budget exhausted')


FUEL = Fuel()
PATH_RESET = []         # callables run at the start of every path (per-path switches of the models go back to their defaults)


def choose(name, options):
    """nondeterministic choice among a concrete list, explored exhaustively"""
    options = list(options)
    return options[cur().choose(name, len(options))]
