"""replay concrete witnesses against the unmodified cardutil of /repo (no loader, no shadows)."""
import importlib
import json
import os
import sys

ROOT = os.path.dirname(os.path.dirname(os.path.abspath(__file__)))
REPO = os.environ.get('REPO', '/repo')
sys.path.insert(0, ROOT)
sys.path.insert(0, REPO)
sys.meta_path = [f for f in sys.meta_path if 'editable' not in getattr(f, '__module__', '') + getattr(f, '__name__', '')]


def unjson(x):
    if isinstance(x, dict):
        if set(x) == {'hex'}:
            return bytes.fromhex(x['hex'])
        return {k: unjson(v) for k, v in x.items()}
    if isinstance(x, list):
        return [unjson(v) for v in x]
    return x


def run(spec):
    import cardutil
    assert type(cardutil.__spec__.loader).__name__ == 'SourceFileLoader', 'replay must use the plain modules'
    assert os.path.realpath(os.path.dirname(cardutil.__file__)) == os.path.realpath(os.path.join(REPO, 'cardutil')), cardutil.__file__
    mod = importlib.import_module('harness.%s_replay' % spec['property'].lower())
    fn = getattr(mod, 'replay_' + spec['kind'])
    try:
        res = fn(**unjson(spec.get('args', {})))
    except Exception as e:
        import traceback
        frames = traceback.extract_tb(e.__traceback__)
        in_lib = [f for f in frames if os.path.realpath(f.filename).startswith(os.path.realpath(os.path.join(REPO, 'cardutil')) + os.sep)]
        if in_lib:
            # the code under test raised where the replay function expected a result: an exception the property does not allow
            return {'violated': True, 'observed': '%s raised in %s:%d: %s' % (type(e).__name__, os.path.basename(in_lib[-1].filename), in_lib[-1].lineno, str(e)[:120]),
                    'key': '%s/exception/%s' % (spec['property'], type(e).__name__)}
        # a replay function that crashes by itself is a machinery problem, not a violation
        return {'violated': None, 'observed': 'replay crashed: %s' % traceback.format_exc()[-600:], 'key': None}
    if isinstance(res, tuple):
        res = {'violated': bool(res[0]), 'observed': res[1], 'key': res[2] if len(res) > 2 else None}
    return res


def _debug_logging():
    import logging

    class Null(logging.Handler):
        def emit(self, record):
            self.format(record)          # the message is rendered (as a real handler would), nothing is written

    lg = logging.getLogger('cardutil')
    lg.addHandler(Null())
    lg.setLevel(logging.DEBUG)
    lg.propagate = False


def main(argv):
    if argv and argv[0] == '--debug-logging':
        _debug_logging()
        argv = argv[1:]
    if argv and argv[0] == '--batch':
        specs = json.load(sys.stdin if argv[1] == '-' else open(argv[1]))
        out = [run(s) for s in specs]
        print(json.dumps(out))
        return 0
    spec = json.load(open(argv[0]))
    if spec.get('mode') == '-O' and sys.flags.optimize == 0:
        os.execv(sys.executable, [sys.executable, '-O', __file__] + argv)
    if spec.get('mode') == 'debug-logging':
        _debug_logging()
    res = run(spec)
    print(json.dumps(res, indent=1))
    if res.get('violated'):
        print('REPRODUCED property=%s key=%s' % (spec['property'], res.get('key')))
        return 1
    return 0


if __name__ == '__main__':
    sys.exit(main(sys.argv[1:]))
