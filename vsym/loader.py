"""vsym.loader -- load cardutil from the current working tree of /repo with AST normalisations.

The encoding that the solver sees is therefore regenerated from /repo's source on every run.
Normalisations (each preserves behaviour; see DESIGN.md 3.1):
  N1  `LOGGER.<level>(...)` statements -> pass         (rejects calls with possible side effects)
  N2  f-strings -> '' + format(a, spec) + ...
  N3  `while` bodies start with __fuel__.tick()
  N4  a * b -> __vmul__(a, b)
  N5  optional compile(optimize=1)   (python -O twin)
  N6  x[k] (load context) -> __vgetitem__(x, k)
  N7  <const str>.join(x) -> __vjoin__(sep, x)
  S   module-global shadows for builtins and library modules (vsym.models)
"""
import ast
import hashlib
import importlib
import importlib.util
import inspect
import os
import sys

from . import core, models

REPO = os.environ.get('REPO', '/repo')


class LoaderReject(Exception):
    pass


_SAFE_LOG_CALLS = {'len', 'str', 'format', 'repr', 'hexdump', 'type', 'get', 'keys', 'decode', 'join'}


class Xform(ast.NodeTransformer):
    def __init__(self, path):
        self.path = path
        self.stripped = 0

    def _check_log_args(self, call):
        for node in ast.walk(call):
            if node is call:
                continue
            if isinstance(node, ast.Call):
                f = node.func
                name = f.id if isinstance(f, ast.Name) else (f.attr if isinstance(f, ast.Attribute) else None)
                if name not in _SAFE_LOG_CALLS:
                    raise LoaderReject('%s:%d: logging call with a nested call to %r cannot be dropped safely'
                                       % (self.path, call.lineno, name))
            if isinstance(node, (ast.NamedExpr, ast.Await, ast.Yield, ast.YieldFrom)):
                raise LoaderReject('%s:%d: logging call with side effects' % (self.path, call.lineno))

    def visit_Expr(self, node):
        c = node.value
        if isinstance(c, ast.Call) and isinstance(c.func, ast.Attribute) and isinstance(c.func.value, ast.Name) \
                and c.func.value.id == 'LOGGER':
            try:
                self._check_log_args(c)
            except LoaderReject:
                # the arguments may have effects (a read, a seek ...): the statement stays and its arguments are evaluated as in the
                # original; only the rendering of the message goes to the (lazy) format model
                return self.generic_visit(node)
            self.stripped += 1
            return ast.copy_location(ast.Pass(), node)
        return self.generic_visit(node)

    def visit_JoinedStr(self, node):
        self.generic_visit(node)
        parts = []
        for v in node.values:
            if isinstance(v, ast.Constant):
                parts.append(v)
            else:
                val = v.value
                if v.conversion == ord('r'):
                    val = ast.Call(ast.Name('repr', ast.Load()), [val], [])
                elif v.conversion == ord('s'):
                    val = ast.Call(ast.Name('str', ast.Load()), [val], [])
                elif v.conversion == ord('a'):
                    val = ast.Call(ast.Name('ascii', ast.Load()), [val], [])
                spec = v.format_spec if v.format_spec is not None else ast.Constant('')
                if isinstance(spec, ast.JoinedStr):
                    if all(isinstance(x, ast.Constant) for x in spec.values):
                        spec = ast.Constant(''.join(x.value for x in spec.values))
                    else:
                        spec = self.visit_JoinedStr(spec)
                parts.append(ast.Call(ast.Name('format', ast.Load()), [val, spec], []))
        expr = parts[0] if parts else ast.Constant('')
        if not isinstance(expr, ast.Constant):
            expr = ast.BinOp(ast.Constant(''), ast.Add(), expr)
        for p in parts[1:]:
            expr = ast.BinOp(expr, ast.Add(), p)
        return ast.copy_location(expr, node)

    # N8: `import struct` / `from io import BytesIO` of a library that has a stub binds the stub at import time, so that default
    # arguments and module-level values computed from it already see the stub
    def visit_Import(self, node):
        out = []
        for a in node.names:
            if a.name in _STUB_LIBS:
                target = a.asname or a.name
                out.append(ast.Assign([ast.Name(target, ast.Store())],
                                      ast.Call(ast.Name('__vlib__', ast.Load()), [ast.Constant(a.name), ast.Constant(None)], [])))
            else:
                out.append(ast.Import([a]))
        return [ast.copy_location(n, node) for n in out]

    def visit_ImportFrom(self, node):
        if node.level == 0 and node.module in _STUB_LIBS and all(a.name != '*' for a in node.names):
            out = []
            for a in node.names:
                out.append(ast.Assign([ast.Name(a.asname or a.name, ast.Store())],
                                      ast.Call(ast.Name('__vlib__', ast.Load()), [ast.Constant(node.module), ast.Constant(a.name)], [])))
            return [ast.copy_location(n, node) for n in out]
        return node

    def visit_While(self, node):
        self.generic_visit(node)
        tick = ast.Expr(ast.Call(ast.Attribute(ast.Name('__fuel__', ast.Load()), 'tick', ast.Load()), [], []))
        node.body.insert(0, ast.copy_location(tick, node))
        return node

    def visit_BinOp(self, node):
        self.generic_visit(node)
        if isinstance(node.op, ast.Mult):
            return ast.copy_location(ast.Call(ast.Name('__vmul__', ast.Load()), [node.left, node.right], []), node)
        return node

    def visit_Subscript(self, node):
        self.generic_visit(node)
        if not isinstance(node.ctx, ast.Load):
            return node
        sl = node.slice
        if isinstance(sl, ast.Slice):
            none = ast.Constant(None)
            key = ast.Call(ast.Name('slice', ast.Load()), [sl.lower or none, sl.upper or none, sl.step or none], [])
        elif isinstance(sl, ast.Tuple) and any(isinstance(e, ast.Slice) for e in sl.elts):
            return node
        else:
            key = sl
        return ast.copy_location(ast.Call(ast.Name('__vgetitem__', ast.Load()), [node.value, key], []), node)

    def visit_Call(self, node):
        self.generic_visit(node)
        f = node.func
        if isinstance(f, ast.Attribute) and f.attr == 'join' and isinstance(f.value, ast.Constant) \
                and isinstance(f.value.value, (str, bytes)) and len(node.args) == 1 and not node.keywords:
            return ast.copy_location(ast.Call(ast.Name('__vjoin__', ast.Load()), [f.value, node.args[0]], []), node)
        return node

    # annotations are never evaluated symbolically; leave them alone
    def visit_AnnAssign(self, node):
        if node.value is not None:
            node.value = self.visit(node.value)
        return node

    def visit_arg(self, node):
        return node

    def visit_FunctionDef(self, node):
        returns = node.returns
        node.returns = None
        self.generic_visit(node)
        node.returns = returns
        return node


def sh_join(sep, items):
    items = list(items)
    if any(hasattr(x, '__is_symstr__') or isinstance(x, models.Rope) for x in items):
        out = None
        for k, it in enumerate(items):
            if k and len(sep):
                out = out + sep
            out = it if out is None else out + it
        return out if out is not None else sep[:0]
    return sep.join(items)


def transform_source(path, optimize=0):
    src = open(path, encoding='utf-8').read()
    tree = ast.parse(src, path)
    xf = Xform(path)
    tree = xf.visit(tree)
    ast.fix_missing_locations(tree)
    return compile(tree, path, 'exec', optimize=optimize, dont_inherit=True), xf.stripped


_STUB_LIBS = ('struct', 'binascii', 'io', 'datetime', 're', 'csv')


def _vlib(name, attr):
    """the stub standing in for library `name` (or one attribute of it; attributes the stub does not have come from the real library)"""
    lib = {'struct': models.StructStub, 'binascii': models.BinasciiStub, 'io': models.IoStub, 'datetime': models.DatetimeStub,
           're': models.ReStub, 'csv': models.CsvStub}[name]
    if attr is None:
        return lib
    if hasattr(lib, attr):
        return getattr(lib, attr)
    return getattr(importlib.import_module(name), attr)


# post-exec overrides: names bound by `import x` inside the module are replaced by stubs
def _post_overrides(name, d, stubs):
    lib = {
        'struct': models.StructStub,
        'binascii': models.BinasciiStub,
        'io': models.IoStub,
        'datetime': models.DatetimeStub,
        're': models.ReStub,
        'csv': models.CsvStub,
    }
    for k, v in lib.items():
        if k in d and inspect.ismodule(d[k]) and d[k].__name__ == k:
            d[k] = v
    for k, v in (stubs or {}).items():
        if k in d:
            d[k] = v
    if name == 'cardutil.BitArray' and 'BitArray' in d and hasattr(d['BitArray'], 'tolist'):
        # abstract bytes cannot go through array('B', ...): bit list of abstract bytes through the peek table (model; concrete bytes run
        # the real method)
        cls = d['BitArray']
        real = cls.tolist

        def tolist(self, _real=real):
            if isinstance(self.bytes, models.Rope):
                return models.bits_of(self.bytes, getattr(self, 'endian', 'big'))
            return _real(self)
        tolist.__wrapped__ = real
        cls.tolist = tolist


class _Loader:
    def __init__(self, path, name, ctx):
        self.path = path
        self.name = name
        self.ctx = ctx

    def create_module(self, spec):
        return None

    def exec_module(self, module):
        code, stripped = transform_source(self.path, self.ctx.optimize)
        d = module.__dict__
        d.update(models.SHADOWS)
        d['__vjoin__'] = sh_join
        d['__vlib__'] = _vlib
        d.update(self.ctx.extra_shadows)
        exec(code, d)
        _post_overrides(self.name, d, self.ctx.stubs)
        self.ctx.loaded.append((self.name, self.path, stripped))


class _Finder:
    def __init__(self, ctx):
        self.ctx = ctx

    def find_spec(self, name, path=None, target=None):
        if name == 'cardutil' or name.startswith('cardutil.'):
            if name.startswith('cardutil.vendor'):
                return None      # third-party hexdump: loaded natively (only reachable from logging / CLI printing)
            rel = name.replace('.', '/')
            p = os.path.join(self.ctx.repo, rel + '.py')
            pkg = os.path.join(self.ctx.repo, rel, '__init__.py')
            if os.path.exists(pkg):
                return importlib.util.spec_from_file_location(
                    name, pkg, loader=_Loader(pkg, name, self.ctx), submodule_search_locations=[os.path.dirname(pkg)])
            if os.path.exists(p):
                return importlib.util.spec_from_file_location(name, p, loader=_Loader(p, name, self.ctx))
        return None


class Context:
    def __init__(self, repo=None, optimize=0, stubs=None, extra_shadows=None):
        self.repo = repo or REPO
        self.optimize = optimize
        self.stubs = stubs or {}
        self.extra_shadows = extra_shadows or {}
        self.loaded = []
        self.modules = {}

    def load(self, *names):
        """import the named cardutil modules through the normalising loader; returns them"""
        for m in [k for k in sys.modules if k == 'cardutil' or k.startswith('cardutil.')]:
            del sys.modules[m]
        finder = _Finder(self)
        sys.meta_path.insert(0, finder)
        if self.repo not in sys.path:
            sys.path.insert(0, self.repo)
        try:
            out = []
            for n in names:
                mod = importlib.import_module(n)
                self.modules[n] = mod
                out.append(mod)
        finally:
            sys.meta_path.remove(finder)
        # keep the normalised modules registered: their lazy imports must resolve to themselves
        return out[0] if len(out) == 1 else out


def describe(*fns):
    """qualified name + sha256 of the source text of each function/class that a harness executes"""
    out = []
    for f in fns:
        try:
            src = inspect.getsource(f)
            fn = inspect.getsourcefile(f)
            line = inspect.getsourcelines(f)[1]
        except (OSError, TypeError):
            src = repr(f)
            fn = '?'
            line = 0
        out.append({'name': '%s.%s' % (getattr(f, '__module__', '?'), getattr(f, '__qualname__', getattr(f, '__name__', '?'))),
                    'file': os.path.relpath(fn, REPO) if fn and fn != '?' else fn, 'line': line,
                    'sha256': hashlib.sha256(src.encode()).hexdigest()[:16]})
    return out
