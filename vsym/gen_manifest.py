"""regenerate MANIFEST.json from the harness modules present (keeps it valid and current)"""
import importlib
import json
import os
import sys

ROOT = os.path.dirname(os.path.dirname(os.path.abspath(__file__)))
sys.path.insert(0, ROOT)
props = [json.loads(l) for l in open(os.path.join(ROOT, 'properties.jsonl'))]
checks = []
na = []
for p in props:
    pid = p['id']
    try:
        mod = importlib.import_module('harness.' + pid.lower())
    except ModuleNotFoundError:
        na.append({'property_id': pid, 'reason': 'check not built yet (work in progress; planned in DESIGN.md section 4)'})
        continue
    if getattr(mod, 'NOT_APPLICABLE', None):
        na.append({'property_id': pid, 'reason': mod.NOT_APPLICABLE})
        continue
    try:
        obs = mod.obligations('quick')
        names = []
        for o in obs:
            fam = o.name.split('/')[0]
            if fam not in names:
                names.append(fam)
        bounds = []
        for o in obs:
            if o.bounds and o.bounds not in bounds:
                bounds.append(o.bounds)
        btxt = ' Quick tier: %d obligations (%s). Bounds, e.g.: %s' % (len(obs), ', '.join(names)[:160], ' | '.join(bounds)[:700])
    except Exception as e:
        btxt = ''
    checks.append({
        'property_id': pid,
        'quick_cmd': 'bin/check %s --tier quick' % pid,
        'thorough_cmd': 'bin/check %s --tier thorough' % pid,
        'evidence_file': 'evidence/%s.json' % pid,
        'replay_cmd_template': 'bin/replay {path}',
        'engine': 'vsym',
        'level_claimed': {
            'category': 'model_checking',
            'text': getattr(mod, 'LEVEL_TEXT', None) or (
                'Bounded symbolic model checking of the real code: the cardutil functions named in the evidence are executed '
                'by CPython on symbolic values; every feasible path within the stated bounds is explored and each branch and '
                'requirement is decided by z3. Holds = path search exhausted, no unknown; a counterexample is replayed on the '
                'unmodified build before it is reported.') + btxt,
            'design_ref': 'DESIGN.md section 4, %s' % pid,
        },
        'level_note': getattr(mod, 'LEVEL_NOTE', None) or (
            'Trusted: CPython, z3, vsym path bookkeeping, the models in vsym/models.py (shadows of len/int/str/format/struct/io/...) '
            'and the rope abstraction (opaque content, symbolic lengths); bounds and stubs are listed per obligation in the evidence. '
            + '; '.join(getattr(mod, 'ASSUMPTIONS', []))),
        'technique': getattr(mod, 'TECHNIQUE', 'symbolic execution of the real Python functions (decision-stack re-execution) with z3 deciding every branch and assertion; counterexamples replayed concretely'),
    })
man = {
    'version': 1,
    'setup_cmd': 'bin/ensure-env',
    'hooks': {
        'guard': 'CARDUTIL_VERIF',
        'enable': 'none needed: the checks load cardutil from /repo source through vsym/loader.py (AST normalisation at import time); no hook code exists in /repo',
        'baseline_off_cmd': 'cd /repo && /venv/bin/python -m pytest -ra -q -p no:cacheprovider --timeout=900 --continue-on-collection-errors',
        'source_commits': [],
        'add_only': True,
    },
    'engines': [{
        'name': 'vsym', 'path': 'vsym/',
        'serves_properties': [c['property_id'] for c in checks],
        'kind_free_text': 'symbolic executor for the real Python code (operator-overloading values over z3 terms, exhaustive path search with '
                          'model-guided branching) plus content-abstract ropes; regenerated from /repo source on every run',
    }],
    'checks': checks,
    'not_applicable': na,
    'notes': 'bin/check <ID> --tier quick|thorough; exit 0 held / 1 VIOLATION (replayed on the real build) / 2 harness error. '
             'INCONCLUSIVE lines mean an obligation could not be decided (never counted as held). known_findings.json lists recorded findings.',
}
json.dump(man, open(os.path.join(ROOT, 'MANIFEST.json'), 'w'), indent=1)
print('claimed', len(checks), 'not_applicable', len(na))
