"""vsym.symstr -- strings / bytes / integers with a concrete length and symbolic characters.

Used where the code computes on characters (PIN blocks, keys, PVV, Luhn):
  * HexNib cells: a hexadecimal digit character whose value is a 4-bit vector term (QF_BV);
  * Dig cells:    a decimal digit character whose value is an integer term 0..9 (LIA, used for Luhn);
  * plain python characters.
HexInt is an unsigned integer given by its hex digits (most significant first); SymBytes is a byte string
given by nibbles.  The cipher is an uninterpreted function on bit-vectors (vsym.crypto_stub).
"""
import builtins

import z3

from . import core
from .core import SInt, SBool, Unsupported, mk_bool, mk_int, s_and, s_or, s_not

HEXCH = '0123456789abcdef'


class HexNib:
    __slots__ = ('t',)

    def __init__(self, t):
        self.t = t if not isinstance(t, int) else z3.BitVecVal(t, 4)

    def __repr__(self):
        return 'Nib(%s)' % (self.t,)


class Dig:
    """a decimal digit character: value v (int / SInt, 0..9) written in the script whose zero is code point `base`
    (48 = ASCII; 0x660 Arabic-Indic, 0xff10 fullwidth, ... are digits for str.isdigit() and int() alike)"""
    __slots__ = ('v', 'base')

    def __init__(self, v, base=48):
        self.v = v
        self.base = base

    def __repr__(self):
        return 'Dig(%s)' % (self.v,)


def _nib_of_char(c):
    if isinstance(c, HexNib):
        return c.t
    if isinstance(c, str) and len(c) == 1 and c in '0123456789abcdefABCDEF':
        return z3.BitVecVal(int(c, 16), 4)
    return None


def _simp_nib(t):
    s = z3.simplify(t)
    return s


def cell_eq(a, b):
    """equality of two characters -> bool / SBool"""
    if isinstance(a, str) and isinstance(b, str):
        return a == b
    if isinstance(a, HexNib) or isinstance(b, HexNib):
        x, y = (a, b) if isinstance(a, HexNib) else (b, a)
        if isinstance(y, HexNib):
            return mk_bool(x.t == y.t)
        if isinstance(y, str):
            if y in HEXCH:
                return mk_bool(x.t == int(y, 16))
            return False
        if isinstance(y, Dig):
            return mk_bool(z3.BV2Int(x.t) == core.lift(y.v))
    if isinstance(a, Dig) or isinstance(b, Dig):
        x, y = (a, b) if isinstance(a, Dig) else (b, a)
        if isinstance(y, Dig):
            return core.s_and(x.base == y.base, core.s_eq(x.v, y.v))
        if isinstance(y, str):
            if len(y) == 1 and 0 <= ord(y) - x.base <= 9:
                return core.s_eq(x.v, ord(y) - x.base)
            return False
    raise Unsupported('character comparison %r / %r' % (a, b))


class SymStr:
    """text (kind 't') or bytes (kind 'b') of concrete length with symbolic characters"""
    __is_symstr__ = True

    def __init__(self, cells, kind='t'):
        self.cells = list(cells)
        self.kind = kind

    # -- construction
    @staticmethod
    def of(x, kind='t'):
        if isinstance(x, SymStr):
            return x
        if isinstance(x, str):
            return SymStr(list(x), 't')
        if isinstance(x, (bytes, bytearray)):
            return SymStr([chr(b) for b in x], 'b')
        from .models import IntStr
        if isinstance(x, IntStr):
            return SymStr(_intstr_cells(x), kind)
        raise TypeError('cannot make a symbolic string from %r' % (type(x),))

    def concrete(self):
        if all(isinstance(c, str) for c in self.cells):
            s = ''.join(self.cells)
            return s if self.kind == 't' else s.encode('latin_1')
        return None

    def __len__(self):
        return len(self.cells)

    def __slen__(self):
        return len(self.cells)

    def __iter__(self):
        return iter([SymStr([c], self.kind) for c in self.cells])

    def __getitem__(self, k):
        if isinstance(k, slice):
            a, b, st = k.start, k.stop, k.step
            ex = core.cur()
            if isinstance(a, SInt):
                a = ex.concretize(a, limit=len(self.cells) + 40)
            if isinstance(b, SInt):
                b = ex.concretize(b, limit=len(self.cells) + 40)
            return SymStr(self.cells[slice(a, b, st)], self.kind)
        if isinstance(k, SInt):
            k = core.cur().concretize(k, limit=len(self.cells) + 40)
        return SymStr([self.cells[k]], self.kind)

    def __add__(self, o):
        try:
            o = SymStr.of(o, self.kind)
        except TypeError:
            return NotImplemented
        return SymStr(self.cells + o.cells, self.kind)

    def __radd__(self, o):
        try:
            o = SymStr.of(o, self.kind)
        except TypeError:
            return NotImplemented
        return SymStr(o.cells + self.cells, self.kind)

    def __mul__(self, k):
        if isinstance(k, int) and not isinstance(k, bool):
            return SymStr(self.cells * max(k, 0), self.kind)
        return NotImplemented
    __rmul__ = __mul__

    def __eq__(self, o):
        try:
            o = SymStr.of(o, self.kind)
        except TypeError:
            return False
        if len(o.cells) != len(self.cells):
            return False
        return s_and(*[cell_eq(a, b) for a, b in zip(self.cells, o.cells)])

    def __ne__(self, o):
        return s_not(self.__eq__(o))

    def __hash__(self):
        return 11

    def __bool__(self):
        return len(self.cells) > 0

    def __getattr__(self, name):
        if name.startswith('__'):
            raise AttributeError(name)
        if hasattr('', name):
            raise Unsupported('str.%s on symbolic characters' % name)
        raise AttributeError(name)

    def __repr__(self):
        return 'SymStr(%s)' % ''.join(c if isinstance(c, str) else '?' for c in self.cells)

    # -- predicates
    def isdigit(self):
        if not self.cells:
            return False
        out = []
        for c in self.cells:
            if isinstance(c, str):
                out.append(c.isdigit())
            elif isinstance(c, Dig):
                out.append(True)
            else:
                out.append(mk_bool(z3.ULE(c.t, 9)))
        return s_and(*out)

    def isalpha(self):
        if not self.cells:
            return False
        out = []
        for c in self.cells:
            if isinstance(c, str):
                out.append(c.isalpha())
            elif isinstance(c, Dig):
                out.append(False)
            else:
                out.append(mk_bool(z3.UGT(c.t, 9)))
        return s_and(*out)

    def isnumeric(self):
        return self.isdigit()

    def startswith(self, p):
        p = SymStr.of(p, self.kind)
        return self[0:len(p)] == p

    def encode(self, *a, **k):
        return SymStr(self.cells, 'b')

    def decode(self, *a, **k):
        return SymStr(self.cells, 't')

    def upper(self):
        if any(not isinstance(c, str) for c in self.cells):
            raise Unsupported('upper() on symbolic characters')
        return SymStr([c.upper() for c in self.cells], self.kind)

    def __sstr__(self):
        return self

    def ljust(self, w, fill=' '):
        return SymStr(self.cells + [fill] * max(0, w - len(self.cells)), self.kind)

    def rjust(self, w, fill=' '):
        return SymStr([fill] * max(0, w - len(self.cells)) + self.cells, self.kind)

    def zfill(self, w):
        return self.rjust(w, '0')

    def lower(self):
        return SymStr([c.lower() if isinstance(c, str) else c for c in self.cells], self.kind)

    def translate(self, table):
        """str.translate: concrete characters through the table; a symbolic decimal digit becomes the digit the table maps its value
        to (a 10-entry look-up), provided the table maps all ten ASCII digits to ASCII digits (or leaves them alone)"""
        out = []
        for c in self.cells:
            if isinstance(c, str):
                r = c.translate(table)
                out.extend(list(r))
                continue
            if isinstance(c, Dig):
                img = []
                bases = set()
                for d in range(10):
                    try:
                        m = table[c.base + d]
                    except (KeyError, IndexError, LookupError):
                        m = c.base + d
                    if isinstance(m, str) and len(m) == 1:
                        m = ord(m)
                    if not isinstance(m, int):
                        raise Unsupported('translate of a symbolic digit to something that is not one character')
                    nb = c.base if 0 <= m - c.base <= 9 else (48 if 48 <= m <= 57 else None)
                    if nb is None:
                        raise Unsupported('translate of a symbolic digit to something that is not a digit')
                    bases.add(nb)
                    img.append(m - nb)
                if len(bases) != 1:
                    raise Unsupported('translate of a symbolic digit into two scripts')
                nb = bases.pop()
                if img == list(range(10)) and nb == c.base:
                    out.append(c)
                elif isinstance(c.v, int):
                    out.append(Dig(img[c.v], nb))
                else:
                    out.append(Dig(core.STab(c.v.t, 0, img), nb))
                continue
            raise Unsupported('translate on a symbolic hexadecimal character')
        return SymStr(out, self.kind)

    def find(self, sub, start=0):
        sub = SymStr.of(sub, self.kind)
        n, m = len(self.cells), len(sub.cells)
        for i in range(start, n - m + 1):
            if s_and(*[cell_eq(self.cells[i + j], sub.cells[j]) for j in range(m)]):     # forks on content
                return i
        return -1

    def index(self, sub, start=0):
        i = self.find(sub, start)
        if i < 0:
            raise ValueError('substring not found' if self.kind == 't' else 'subsection not found')
        return i

    def rfind(self, sub):
        sub = SymStr.of(sub, self.kind)
        n, m = len(self.cells), len(sub.cells)
        for i in range(n - m, -1, -1):
            if s_and(*[cell_eq(self.cells[i + j], sub.cells[j]) for j in range(m)]):     # forks on content
                return i
        return -1

    def rindex(self, sub):
        i = self.rfind(sub)
        if i < 0:
            raise ValueError('substring not found')
        return i

    def endswith(self, p):
        p = SymStr.of(p, self.kind)
        if len(p.cells) > len(self.cells):
            return False
        return SymStr(self.cells[len(self.cells) - len(p.cells):], self.kind) == p

    def __contains__(self, sub):
        return self.find(sub) >= 0

    def count(self, sub):
        sub = SymStr.of(sub, self.kind)
        c, i, m = 0, 0, len(sub.cells)
        if m == 0:
            return len(self.cells) + 1
        while True:
            j = self.find(sub, i)
            if j < 0:
                return c
            c += 1
            i = j + m

    def replace(self, old, new, count=-1):
        """str.replace on symbolic characters: scans from the left, forking on whether `old` matches at each position"""
        old = SymStr.of(old, self.kind)
        new = SymStr.of(new, self.kind)
        m = len(old.cells)
        if m == 0:
            raise Unsupported('replace of the empty string')
        out = []
        i = 0
        n = len(self.cells)
        done = 0
        while i < n:
            if i + m <= n and (count < 0 or done < count) and \
                    s_and(*[cell_eq(self.cells[i + j], old.cells[j]) for j in range(m)]):
                out.extend(new.cells)
                i += m
                done += 1
            else:
                out.append(self.cells[i])
                i += 1
        return SymStr(out, self.kind)

    def _in_set(self, cell, chars):
        if chars is None:
            chars = ' \t\n\r\x0b\x0c'
        return s_or(*[cell_eq(cell, ch) for ch in (chars if isinstance(chars, str) else [chr(b) for b in chars])])

    def lstrip(self, chars=None):
        cells = list(self.cells)
        while cells and self._in_set(cells[0], chars):          # forks on the content of the leading characters
            cells.pop(0)
        return SymStr(cells, self.kind)

    def rstrip(self, chars=None):
        cells = list(self.cells)
        while cells and self._in_set(cells[-1], chars):
            cells.pop()
        return SymStr(cells, self.kind)

    def strip(self, chars=None):
        return self.rstrip(chars).lstrip(chars)

    # -- format(value, spec): fill/align only
    def __sformat__(self, spec):
        if spec == '':
            return self
        if len(spec) >= 2 and spec[1] in '<>^' and spec[2:].isdigit():
            fill, align, w = spec[0], spec[1], builtins.int(spec[2:])
        elif spec[0] in '<>^' and spec[1:].isdigit():
            fill, align, w = ' ', spec[0], builtins.int(spec[1:])
        else:
            raise Unsupported('format spec %r on a symbolic string' % spec)
        pad = max(0, w - len(self.cells))
        if align == '<':
            return SymStr(self.cells + [fill] * pad, self.kind)
        if align == '>':
            return SymStr([fill] * pad + self.cells, self.kind)
        raise Unsupported('centre alignment')

    # -- int(s, base)
    def __sint__(self, base=10):
        if not self.cells:
            raise ValueError("invalid literal for int() with base %d: ''" % base)
        if base == 16:
            nibs = []
            for c in self.cells:
                n = _nib_of_char(c)
                if n is None:
                    if isinstance(c, Dig):
                        raise Unsupported('decimal-digit cell in a hex context')
                    raise ValueError('invalid literal for int() with base 16')
                nibs.append(n)
            return HexInt(nibs)
        if base != 10:
            raise Unsupported('int(symbolic, base=%r)' % base)
        if all(isinstance(c, Dig) for c in self.cells):
            v = 0
            for c in self.cells:
                v = v * 10 + c.v
            return v
        # hex-nibble characters read as decimal: every character must be 0..9, else ValueError (forks)
        ex = core.cur()
        val = 0
        for c in self.cells:
            if isinstance(c, str):
                if not (c.isascii() and c.isdigit()):
                    raise ValueError('invalid literal for int() with base 10: %r' % c)
                val = val * 10 + builtins.int(c)
            elif isinstance(c, Dig):
                val = val * 10 + ex.concretize(c.v, limit=12) if isinstance(c.v, SInt) else val * 10 + c.v
            else:
                if not mk_bool(z3.ULE(c.t, 9)):
                    raise ValueError("invalid literal for int() with base 10: <hex letter>")
                d = ex.concretize(SInt(z3.BV2Int(c.t)), limit=12)
                val = val * 10 + d
        return val

    # -- binascii
    def __sunhexlify__(self):
        import binascii
        if len(self.cells) % 2:
            raise binascii.Error('Odd-length string')
        nibs = []
        for c in self.cells:
            n = _nib_of_char(c)
            if n is None:
                raise binascii.Error('Non-hexadecimal digit found')
            nibs.append(n)
        return SymBytes(nibs)


def _intstr_cells(x):
    """IntStr (str of symbolic ints) -> character cells; only single decimal digits are supported"""
    cells = []
    for part in x.parts:
        if isinstance(part, str):
            cells.extend(part)
        elif isinstance(part, SInt):
            if not s_and(part >= 0, part <= 9):
                raise Unsupported('str() of a symbolic int outside 0..9')
            cells.append(Dig(part))
        elif isinstance(part, int):
            cells.extend(str(part))
        else:
            raise Unsupported('str part %r' % (part,))
    return cells


class HexInt:
    """unsigned integer given by its hex digits, most significant first"""
    def __init__(self, nibs):
        self.nibs = [n if not isinstance(n, int) else z3.BitVecVal(n, 4) for n in nibs]

    @staticmethod
    def of(x, width=None):
        if isinstance(x, HexInt):
            return x
        if isinstance(x, int) and not isinstance(x, bool):
            if x < 0:
                raise Unsupported('negative operand')
            h = '%x' % x
            return HexInt([int(c, 16) for c in h])
        raise TypeError(type(x))

    @staticmethod
    def from_bv(t):
        n = t.size() // 4
        return HexInt([z3.simplify(z3.Extract(4 * (n - i) - 1, 4 * (n - i - 1), t)) for i in range(n)])

    def bv(self, bits=None):
        t = z3.Concat(*self.nibs) if len(self.nibs) > 1 else self.nibs[0]
        if bits is not None and t.size() < bits:
            t = z3.ZeroExt(bits - t.size(), t)
        return z3.simplify(t)

    def _align(self, o):
        o = HexInt.of(o)
        n = max(len(self.nibs), len(o.nibs))
        z = z3.BitVecVal(0, 4)
        a = [z] * (n - len(self.nibs)) + self.nibs
        b = [z] * (n - len(o.nibs)) + o.nibs
        return a, b

    def __xor__(self, o):
        try:
            a, b = self._align(o)
        except TypeError:
            return NotImplemented
        return HexInt([z3.simplify(x ^ y) for x, y in zip(a, b)])
    __rxor__ = __xor__

    def bit_length(self):
        """number of significant bits (forks over the position of the leading one; exact)"""
        sig = self.significant()
        top = self.nibs[len(self.nibs) - sig]
        if mk_bool(top == 0):
            return 0 if sig == 1 else 4 * (sig - 1)
        for b in (4, 3, 2):
            if mk_bool(z3.UGE(top, 1 << (b - 1))):
                return 4 * (sig - 1) + b
        return 4 * (sig - 1) + 1

    def small(self):
        """python int value of a short hex integer, by enumerating the feasible values (forks; exact)"""
        if len(self.nibs) > 2:
            raise Unsupported('arithmetic on a wide symbolic hex integer')
        ex = core.cur()
        t = self.bv()
        return ex.concretize(SInt(z3.BV2Int(t)), limit=300)

    def __add__(self, k):
        if isinstance(k, int):
            return self.small() + k
        return NotImplemented
    __radd__ = __add__

    def __index__(self):
        return self.small()

    def __sub__(self, k):
        if isinstance(k, int) and len(self.nibs) == 1:
            # single hex digit minus a small constant (decimalisation: a..f -> 0..5)
            if not mk_bool(z3.UGE(self.nibs[0], k)):
                raise Unsupported('negative result')
            return HexInt([z3.simplify(self.nibs[0] - k)])
        raise Unsupported('subtraction on a symbolic hex integer')

    def __bool__(self):
        return bool(mk_bool(z3.Or(*[n != 0 for n in self.nibs])))

    def __eq__(self, o):
        try:
            a, b = self._align(o)
        except TypeError:
            return False
        return mk_bool(z3.And(*[x == y for x, y in zip(a, b)]))

    def __ne__(self, o):
        return s_not(self.__eq__(o))

    def __hash__(self):
        return 13

    def _cmp(self, o, op):
        if not isinstance(o, (int, HexInt)) or isinstance(o, bool):
            return NotImplemented
        bits = 4 * max(len(self.nibs), len(HexInt.of(o).nibs))
        a = self.bv(bits)
        b = HexInt.of(o).bv(bits)
        return mk_bool(op(a, b))

    def __lt__(self, o):
        return self._cmp(o, z3.ULT)

    def __le__(self, o):
        return self._cmp(o, z3.ULE)

    def __gt__(self, o):
        return self._cmp(o, z3.UGT)

    def __ge__(self, o):
        return self._cmp(o, z3.UGE)

    def __mod__(self, k):
        if isinstance(k, int) and k > 0:
            bits = max(4 * len(self.nibs), (k.bit_length() + 3) // 4 * 4)
            return HexInt.from_bv(z3.simplify(z3.URem(self.bv(bits), z3.BitVecVal(k, bits))))
        raise Unsupported('symbolic hex integer modulo %r' % (k,))

    def __floordiv__(self, k):
        if isinstance(k, int) and k > 0:
            bits = max(4 * len(self.nibs), (k.bit_length() + 3) // 4 * 4)
            return HexInt.from_bv(z3.simplify(z3.UDiv(self.bv(bits), z3.BitVecVal(k, bits))))
        raise Unsupported('symbolic hex integer divided by %r' % (k,))

    def __and__(self, k):
        if isinstance(k, int) and k >= 0 and (k + 1) & k == 0 and k not in (0x0f, 0xf0) and k.bit_length() % 4 == 0:
            n = k.bit_length() // 4             # a mask of n low hex digits
            return HexInt(self.nibs[-n:]) if n else HexInt([z3.BitVecVal(0, 4)])
        if isinstance(k, int) and k == 0x0f:
            return HexInt(self.nibs[-1:])
        if isinstance(k, int) and k == 0xf0 and len(self.nibs) >= 2:
            return HexInt([self.nibs[-2], z3.BitVecVal(0, 4)])
        raise Unsupported('bit-and of a symbolic hex integer with %r' % (k,))
    __rand__ = __and__

    def __rshift__(self, k):
        if isinstance(k, int) and k % 4 == 0:
            n = k // 4
            return HexInt(self.nibs[:-n] if n < len(self.nibs) else [0]) if n else self
        raise Unsupported('shift of a symbolic hex integer by %r' % (k,))

    def __lshift__(self, k):
        if isinstance(k, int) and k % 4 == 0:
            return HexInt(self.nibs + [z3.BitVecVal(0, 4)] * (k // 4))
        raise Unsupported('shift of a symbolic hex integer by %r' % (k,))

    def __or__(self, o):
        try:
            a, b = self._align(o)
        except TypeError:
            return NotImplemented
        return HexInt([z3.simplify(x | y) for x, y in zip(a, b)])
    __ror__ = __or__

    def significant(self):
        """number of hex digits without leading zeros (forks; at least 1)"""
        n = len(self.nibs)
        i = 0
        while i < n - 1 and mk_bool(self.nibs[i] == 0):
            i += 1
        return n - i

    def __sformat__(self, spec):
        if spec.endswith('x') and spec[:-1].isdigit() and spec.startswith('0'):
            w = builtins.int(spec[:-1])
            if len(self.nibs) <= w:
                nibs = self.nibs            # leading zero digits render as '0', exactly like the padding
            else:
                sig = self.significant()
                nibs = self.nibs[len(self.nibs) - sig:]
            cells = [HexNib(t) for t in nibs]
            return SymStr(['0'] * max(0, w - len(cells)) + cells)
        if spec == 'x':
            sig = self.significant()
            return SymStr([HexNib(t) for t in self.nibs[len(self.nibs) - sig:]])
        if spec == '':
            from .models import LazyFmt
            return LazyFmt(self)
        raise Unsupported('format(HexInt, %r)' % spec)

    def __sstr__(self):
        # decimal rendering: only for a single digit 0..9
        nibs = self.nibs
        while len(nibs) > 1 and mk_bool(nibs[0] == 0):
            nibs = nibs[1:]
        if len(nibs) == 1:
            if mk_bool(z3.ULE(nibs[0], 9)):
                return SymStr([HexNib(nibs[0])])
            v = core.cur().concretize(SInt(z3.BV2Int(nibs[0])), limit=20)
            return SymStr(list(str(v)))
        raise Unsupported('str() of a symbolic hex integer')

    def to_bytes(self, length, byteorder='big', **kw):
        if byteorder != 'big':
            raise Unsupported('little endian')
        if isinstance(length, SInt):
            length = core.cur().concretize(length, limit=64)
        if len(self.nibs) <= 2 * length:
            nibs = self.nibs
        else:
            sig = self.significant()
            if sig > 2 * length:
                raise OverflowError('int too big to convert')
            nibs = self.nibs[len(self.nibs) - sig:]
        z = z3.BitVecVal(0, 4)
        return SymBytes([z] * (2 * length - len(nibs)) + nibs)


class SymBytes:
    """byte string given by nibbles (two per byte)"""
    __is_symbytes__ = True

    def __init__(self, nibs):
        assert len(nibs) % 2 == 0
        self.nibs = [n if not isinstance(n, int) else z3.BitVecVal(n, 4) for n in nibs]

    @staticmethod
    def of(x):
        if isinstance(x, SymBytes):
            return x
        if isinstance(x, (bytes, bytearray)):
            out = []
            for b in x:
                out += [b >> 4, b & 15]
            return SymBytes(out)
        raise TypeError(type(x))

    def __len__(self):
        return len(self.nibs) // 2

    def __slen__(self):
        return len(self.nibs) // 2

    def __add__(self, o):
        try:
            return SymBytes(self.nibs + SymBytes.of(o).nibs)
        except TypeError:
            return NotImplemented

    def __radd__(self, o):
        try:
            return SymBytes(SymBytes.of(o).nibs + self.nibs)
        except TypeError:
            return NotImplemented

    def __mul__(self, k):
        if isinstance(k, int) and not isinstance(k, bool):
            return SymBytes(self.nibs * max(k, 0))
        return NotImplemented
    __rmul__ = __mul__

    def __getitem__(self, k):
        if isinstance(k, slice):
            idx = list(range(len(self)))[k]
            out = []
            for i in idx:
                out += self.nibs[2 * i:2 * i + 2]
            return SymBytes(out)
        if isinstance(k, int):
            n = len(self)
            if k < -n or k >= n:
                raise IndexError('index out of range')
            k %= n
            return HexInt(self.nibs[2 * k:2 * k + 2])       # a byte value 0..255
        raise Unsupported('indexing symbolic bytes')

    def __iter__(self):
        return iter([HexInt(self.nibs[2 * i:2 * i + 2]) for i in range(len(self))])

    def __eq__(self, o):
        try:
            o = SymBytes.of(o)
        except TypeError:
            return False
        if len(o.nibs) != len(self.nibs):
            return False
        return mk_bool(z3.And(*[a == b for a, b in zip(self.nibs, o.nibs)])) if self.nibs else True

    def __ne__(self, o):
        return s_not(self.__eq__(o))

    def __hash__(self):
        return 17

    def bv(self):
        return z3.simplify(z3.Concat(*self.nibs)) if len(self.nibs) > 1 else self.nibs[0]

    def __shexlify__(self):
        return SymStr([HexNib(n) for n in self.nibs], 'b')

    def __sunhexlify__(self):
        """binascii.unhexlify(bytes): succeeds iff there is an even number of bytes and every byte is an ASCII hex character"""
        import binascii
        if len(self) % 2:
            raise binascii.Error('Odd-length string')
        out, conds = [], []
        for i in range(len(self)):
            hi, lo = self.nibs[2 * i], self.nibs[2 * i + 1]
            digit = z3.And(hi == 3, z3.ULE(lo, 9))
            letter = z3.And(z3.Or(hi == 4, hi == 6), z3.UGE(lo, 1), z3.ULE(lo, 6))
            conds.append(z3.Or(digit, letter))
            out.append(z3.simplify(z3.If(digit, lo, lo + 9)))
        if not mk_bool(z3.And(*conds)) if conds else False:
            raise binascii.Error('Non-hexadecimal digit found')
        return SymBytes(out)

    def __sfrom_bytes__(self, byteorder='big'):
        if byteorder != 'big':
            raise Unsupported('little endian')
        return HexInt(self.nibs)

    def hex(self):
        return SymStr([HexNib(n) for n in self.nibs], 't')

    def __repr__(self):
        return 'SymBytes(%d)' % len(self)


# ------------------------------------------------------------------ harness helpers

def hex_string(name, n, digits_only=False):
    """n fresh hex-digit characters (decimal digits only if requested)"""
    ex = core.cur()
    cells = []
    for i in range(n):
        v = ex.fresh_bv('%s_%d' % (name, i), 4)
        if digits_only:
            ex.assume(z3.ULE(v, 9))
        cells.append(HexNib(v))
    return SymStr(cells)


def digit_string(name, n, base=48):
    ex = core.cur()
    return SymStr([Dig(ex.fresh_int('%s_%d' % (name, i), 0, 9), base) for i in range(n)])


def concretize_str(s, ev):
    out = []
    for c in s.cells:
        if isinstance(c, str):
            out.append(c)
        elif isinstance(c, Dig):
            out.append(chr(c.base + ev(c.v)))
        else:
            out.append(HEXCH[ev(c.t)])
    return ''.join(out)


def concretize_bytes(b, ev):
    return bytes.fromhex(''.join(HEXCH[ev(n)] for n in b.nibs))
