import argparse
import os
import sys

ROOT = os.path.dirname(os.path.dirname(os.path.abspath(__file__)))
sys.path.insert(0, ROOT)


def main():
    ap = argparse.ArgumentParser()
    ap.add_argument('prop')
    ap.add_argument('--tier', default=os.environ.get('VERIF_TIER', 'quick'), choices=['quick', 'thorough'])
    ap.add_argument('--only', action='append')
    ap.add_argument('--jobs', type=int)
    ap.add_argument('--list', action='store_true')
    a = ap.parse_args()
    from vsym import runner
    if a.list:
        import importlib
        mod = importlib.import_module('harness.' + a.prop.lower())
        for o in runner.all_obligations(mod, a.tier):
            print(o.name, '|', o.bounds)
        return 0
    seed = int(os.environ.get('VERIF_SEED', '0') or 0)
    return runner.check(a.prop.upper(), a.tier, seed=seed, only=a.only, jobs=a.jobs)


if __name__ == '__main__':
    sys.exit(main())
