"""vsym.models -- module-global shadows installed into the loaded cardutil modules.

Every shadow is the identity on concrete arguments (defers to the real builtin / library) and
applies a stated model on symbolic / abstract arguments.  All of them are part of the trusted
base and are listed in the evidence files.
"""
import binascii as _binascii
import csv as _csv
import builtins
import datetime as _datetime
import io as _io
import re as _re
import struct as _struct

import z3

from . import core, rope
from .core import SInt, SBool, Unsupported, same_int, s_eq, s_and, s_or, s_not, mk_int
from .rope import Rope, TRope, BRope, Lit, Opq, Num, U32, Fill, Tok, Frag, Source, norm, mk, rlen


# ------------------------------------------------------------------ len / str / int / format

def sh_len(x):
    if isinstance(x, Rope):
        return x.length()
    if hasattr(x, '__slen__'):
        return x.__slen__()
    return builtins.len(x)


class IntStr:
    """str(symbolic int), kept lazy; only used to build struct formats and format specs"""
    def __init__(self, parts):
        self.parts = parts

    def __add__(self, o):
        return IntStr(self.parts + [o])

    def __radd__(self, o):
        return IntStr([o] + self.parts)

    def _sym(self):
        from .symstr import SymStr
        return SymStr.of(self)

    def __eq__(self, o):
        if isinstance(o, (IntStr, builtins.str)) or getattr(o, '__is_symstr__', False):
            return self._sym() == o
        return False

    def __ne__(self, o):
        return core.s_not(self.__eq__(o))

    def __hash__(self):
        return 19


def sh_str(x='', *a):
    if a:
        return builtins.str(x, *a)
    if isinstance(x, SInt):
        return IntStr([x])
    if hasattr(x, '__sstr__'):
        return x.__sstr__()
    if isinstance(x, TRope):
        return x
    if isinstance(x, BRope):
        raise Unsupported('str() of abstract bytes')
    return builtins.str(x)


class _StrMeta(type):
    def __instancecheck__(cls, obj):
        return builtins.isinstance(obj, (builtins.str, TRope)) or getattr(obj, '__is_symstr__', False)

    def __call__(cls, *a, **k):
        return sh_str(*a, **k)

    def __getattr__(cls, name):
        # str.maketrans, str.join, str.lower ... : class attributes of the real type; an unbound method called with an abstract value
        # dispatches to that value's own method
        real = getattr(builtins.str, name)
        if callable(real) and not isinstance(builtins.str.__dict__.get(name), builtins.staticmethod):
            def unbound(self, *a, **k):
                if builtins.isinstance(self, builtins.str):
                    return real(self, *a, **k)
                return getattr(self, name)(*a, **k)
            return unbound
        return real


class StrLike(metaclass=_StrMeta):
    """stands in for `str` (callable and isinstance target)"""


class _BytesMeta(type):
    def __instancecheck__(cls, obj):
        return builtins.isinstance(obj, (builtins.bytes, BRope))

    def __call__(cls, *a, **k):
        return builtins.bytes(*a, **k)

    def __getattr__(cls, name):
        real = getattr(builtins.bytes, name)
        if callable(real) and not isinstance(builtins.bytes.__dict__.get(name), (builtins.staticmethod, builtins.classmethod)):
            def unbound(self, *a, **k):
                if builtins.isinstance(self, builtins.bytes):
                    return real(self, *a, **k)
                return getattr(self, name)(*a, **k)
            return unbound
        return real


class BytesLike(metaclass=_BytesMeta):
    """stands in for `bytes` (callable and isinstance target)"""
    @staticmethod
    def fromhex(s):
        if isinstance(s, Rope):
            raise Unsupported('bytes.fromhex of abstract text')
        return builtins.bytes.fromhex(s)

    maketrans = staticmethod(builtins.bytes.maketrans)


_WS = ' \t\n\r\x0b\x0c\x1c\x1d\x1e\x1f\x85\xa0'


def nondet_int_of_text(src, lo, hi, L):
    """every outcome int() can have on an L-character opaque string: ValueError, or an integer
    representable in L characters.  Memoised per (source, range)."""
    key = None
    for k in src.ints:
        if same_int(k[0], lo) and same_int(k[1], hi):
            key = k
            break
    if key is None:
        # the same characters read again at an offset that is only semantically equal: same outcome (decided by the solver; may fork)
        for k in list(src.ints):
            if not (isinstance(k[0], int) and isinstance(lo, int)):
                if s_and(s_eq(k[0], lo), s_eq(k[1], hi)):
                    key = k
                    break
    if key is None:
        ex = core.cur()
        if not isinstance(L, int):
            L = ex.concretize(L, limit=12)
        ok = ex.fresh_bool('int_ok_%s' % src.name)
        val = ex.fresh_int('int_val_%s' % src.name, named=True)
        for k in getattr(src, 'isdig', {}):
            if same_int(k[0], lo) and same_int(k[1], hi):
                key = k
        if key is None:
            key = (lo, hi)
        src.ints[key] = (ok, val)
        _link_chars(src, key, L)
    ok, val = src.ints[key]
    if isinstance(L, int) and L <= 0:
        raise ValueError("invalid literal for int() with base 10: ''")
    if not ok:
        raise ValueError("invalid literal for int() with base 10: <abstract>")
    # representable in L characters: -(10^(L-1)-1) .. 10^L-1 ; L is small at all call sites
    if not isinstance(L, int):
        L = core.cur().concretize(L, limit=12)
    if L <= 0:
        raise ValueError("invalid literal for int() with base 10: ''")
    core.assume(val <= 10 ** L - 1)
    core.assume(val >= -(10 ** (L - 1) - 1))
    _link_int_isdigit(src, key, L)
    return val


_INT_WS = (9, 10, 11, 12, 13, 28, 29, 30, 31, 32, 133, 160)
_SUPERSCRIPTS = (0xb2, 0xb3, 0xb9)
_SHAPES = {}
CHAR_LINK_MAX = 4


def _int_shapes(L):
    """all class strings over W(hitespace) S(ign) D(igit) U(nderscore) of length L that int() accepts:  W* S? D (U? D)* W*"""
    if L not in _SHAPES:
        import itertools
        pat = _re.compile(r'W*S?D(U?D)*W*')
        _SHAPES[L] = [''.join(t) for t in itertools.product('WSDU', repeat=L) if pat.fullmatch(''.join(t))]
    return _SHAPES[L]


def _raw_classes(kind, chain, ascii_only=False):
    """per character class: the raw element values (before the codec chain) that land in it"""
    chain = tuple(c for c in chain if rope.codec_name(c[1]) != 'ascii')     # ascii is the identity wherever it succeeds
    tab = rope._chain_table(kind, chain) if chain else list(builtins.range(256))
    if tab is None:
        return None
    inv = {}
    for r, c in enumerate(tab):
        inv.setdefault(c, []).append(r)
    digits = [inv.get(48 + d, []) for d in builtins.range(10)]
    if builtins.any(builtins.len(x) != 1 for x in digits):
        return None
    digits = [x[0] for x in digits]
    ws = (9, 10, 11, 12, 13, 32) if ascii_only else _INT_WS
    return {'digits': digits, 'W': [r for c in ws for r in inv.get(c, [])], 'plus': inv.get(43, []), 'minus': inv.get(45, []),
            'U': inv.get(95, []), 'sup': [r for c in _SUPERSCRIPTS for r in inv.get(c, [])]}


def _link_chars(src, key, L):
    """short numerals (up to CHAR_LINK_MAX characters, the length prefixes): the nondeterministic outcome of int() / isdigit() is tied
    to the individual characters (peek table) by int()'s grammar, so that a sign, a blank or an underscore that the code inspects
    separately is the one the numeral contains -- and the witness is the text the model describes."""
    if not (isinstance(L, builtins.int) and 0 < L <= CHAR_LINK_MAX) or getattr(src, 'base', None) is None:
        return
    done = src.__dict__.setdefault('char_linked', set())
    todo_int = key in src.ints and (key, 'int') not in done
    todo_dig = key in getattr(src, 'isdig', {}) and (key, 'dig') not in done
    if not (todo_int or todo_dig):
        return
    raw_src, chain = src.base
    cls = _raw_classes(raw_src.kind, chain, getattr(src, 'ascii_only', False))
    if cls is None:
        return
    lo = key[0]
    raws = [raw_src.peek(lo + i, ()) for i in builtins.range(L)]
    dg = cls['digits']
    contiguous = builtins.all(dg[d] == dg[0] + d for d in builtins.range(10))

    def is_in(r, vals):
        return core.s_or(*[core.s_eq(r, v) for v in vals]) if vals else False

    def is_digit(r):
        return s_and(r >= dg[0], r <= dg[9]) if contiguous else is_in(r, dg)

    def digit_val(r):
        if contiguous:
            return r - dg[0]
        v = 0
        for d in builtins.range(1, 10):
            v = core.s_ite(core.s_eq(r, dg[d]), d, v)
        return v
    if todo_int:
        done.add((key, 'int'))
        ok, val = src.ints[key]
        conds = []
        for shape in _int_shapes(L):
            cs = []
            mag = 0
            neg = False
            for r, c in zip(raws, shape):
                if c == 'D':
                    cs.append(is_digit(r))
                    mag = mag * 10 + digit_val(r)
                elif c == 'W':
                    cs.append(is_in(r, cls['W']))
                elif c == 'U':
                    cs.append(is_in(r, cls['U']))
                else:
                    cs.append(is_in(r, cls['plus'] + cls['minus']))
                    neg = is_in(r, cls['minus'])
            cond = s_and(*cs)
            value = mag if neg is False else core.s_ite(neg, 0 - mag, mag)
            conds.append(cond)
            core.assume(core.s_implies(cond, core.s_eq(val, value)))
        core.assume(core.s_iff(ok, core.s_or(*conds)))
    if todo_dig:
        done.add((key, 'dig'))
        alld = s_and(*[core.s_or(is_digit(r), is_in(r, cls['sup'])) for r in raws])
        core.assume(core.s_iff(src.isdig[key], alld))


def _link_int_isdigit(src, key, L):
    """consistency between the nondeterministic outcomes of int() and str.isdigit() on the same opaque text"""
    if key not in src.ints or key not in getattr(src, 'isdig', {}):
        return
    ok, val = src.ints[key]
    dg = src.isdig[key]
    both = s_and(ok, dg)
    core.assume(core.s_implies(both, val >= 0))                       # '-5'.isdigit() is False
    if isinstance(L, int):
        if L == 1:
            core.assume(core.s_implies(ok, dg))                        # a single character that int() accepts is a digit
        else:
            # accepted by int() but not all digits: a sign / blank / underscore takes one position
            core.assume(core.s_implies(s_and(ok, s_not(dg), val >= 0), val <= 10 ** (L - 1) - 1))


def nondet_isdigit(src, lo, hi, L):
    """str.isdigit() on opaque text: any outcome (note: it may be True where int() fails, e.g. superscript digits)"""
    if not hasattr(src, 'isdig'):
        src.isdig = {}
    key = None
    for k in src.isdig:
        if same_int(k[0], lo) and same_int(k[1], hi):
            key = k
            break
    if key is None:
        for k in src.ints:
            if same_int(k[0], lo) and same_int(k[1], hi):
                key = k
                break
        if key is None:
            key = (lo, hi)
        src.isdig[key] = core.cur().fresh_bool('isdigit_%s' % src.name)
    if not isinstance(L, int):
        L = core.cur().concretize(L, limit=12)
    if L <= 0:
        return False
    _link_int_isdigit(src, key, L)
    _link_chars(src, key, L)
    return src.isdig[key]


def _digit_fields(ps):
    """[(value, width)] when every piece is made of decimal digits whose value is known symbolically (date tokens and fragments of
    them on directive boundaries, ASCII digit literals); None otherwise"""
    out = []
    for p in ps:
        if isinstance(p, Lit):
            if isinstance(p.v, builtins.str) and p.v.isascii() and p.v.isdigit():
                out.append((builtins.int(p.v), builtins.len(p.v)))
                continue
            return None
        base, a, b = (p.base, p.a, p.b) if isinstance(p, Frag) else (p, 0, None)
        if isinstance(p, Frag) and p.chain:
            return None
        if isinstance(base, Tok) and not base.chain:
            lay = date_layout(base.fmt)
            if lay is None:
                return None
            if b is None:
                b = base.width
            if not (isinstance(a, builtins.int) and isinstance(b, builtins.int)):
                a = core.cur().concretize(a, limit=32)
                b = core.cur().concretize(b, limit=32)
            for off, w, d, lit in lay:
                if off + w <= a or off >= b:
                    continue
                if d is None or off < a or off + w > b:
                    return None
                out.append((base.d.directive_value(d), w))
            continue
        return None
    return out


def rope_isdigit(val):
    conc = rope.try_concrete(val)
    if conc is not None:
        return conc.isdigit()
    ps = rope.nonempty_pieces(val)
    if builtins.any(isinstance(p, Tok) or (isinstance(p, Frag) and isinstance(p.base, Tok)) for p in ps):
        if not ps:
            return False
        if _digit_fields(ps) is not None:
            return True
        # a date token with literal characters or cut inside a field
        if builtins.all(isinstance(p, (Tok, Lit)) for p in ps):
            for p in ps:
                if isinstance(p, Lit) and not p.v.isdigit():
                    return False
                if isinstance(p, Tok):
                    lay = date_layout(p.fmt)
                    if lay is not None and builtins.any(d is None for _, _, d, _ in lay):
                        return False
    if len(ps) == 1 and isinstance(ps[0], Opq):
        p = ps[0]
        return nondet_isdigit(_derived(p), p.lo, p.hi, p.length())
    at = rope.whole_atom(val)
    if isinstance(at, Num):
        return True
    raise Unsupported('isdigit on mixed abstract text')


def sh_int(val=0, base=10):
    if isinstance(val, (SInt,)):
        return val
    if isinstance(val, core.SQuot):
        return val.to_int()
    if hasattr(val, '__sint__'):
        return val.__sint__(base)
    if isinstance(val, Rope):
        if base != 10:
            raise Unsupported('int(rope, base=%r)' % base)
        if val.kind != 't':
            # int(bytes) reads the bytes as ASCII text (only ASCII white space is stripped): the latin_1 view of the same bytes, with the
            # outcome constrained to what an ASCII-only numeral can be
            conc = rope.try_concrete(val)
            if conc is not None:
                return builtins.int(conc)
            ps = rope.nonempty_pieces(val)
            if len(ps) == 1 and isinstance(ps[0], Opq) and builtins.isinstance(ps[0].length(), builtins.int) and ps[0].length() <= CHAR_LINK_MAX:
                p = ps[0]
                chain = p.chain + (('d', 'latin_1'),)
                key = ('bytes-int', chain)
                d = p.src.derived.get(key)
                if d is None:
                    d = Source('%s|bytes-int' % p.src.name, 't', p.src.length)
                    d.base = (p.src, chain)
                    d.ascii_only = True
                    p.src.derived[key] = d
                return nondet_int_of_text(d, p.lo, p.hi, p.length())
            raise Unsupported('int() of abstract bytes')
        at = rope.whole_atom(val)
        if isinstance(at, Num) and not at.chain:
            return at.n
        conc = rope.try_concrete(val)
        if conc is not None:
            return builtins.int(conc)
        ps = rope.nonempty_pieces(val)
        if len(ps) == 1 and isinstance(ps[0], Opq):
            p = ps[0]
            return nondet_int_of_text(_derived(p), p.lo, p.hi, p.length())
        if builtins.any(isinstance(p, Tok) or (isinstance(p, Frag) and isinstance(p.base, Tok)) for p in ps):
            fs = _digit_fields(ps)
            if fs is not None and fs:
                v = 0
                for x, w in fs:
                    v = v * 10 ** w + x
                return v
        # mixed content: literal characters plus opaque ones -> nondeterministic as a whole
        for p in ps:
            if isinstance(p, Lit):
                s = p.v.strip(_WS)
                if s and not all(c.isdigit() or c in '+-_' for c in s):
                    raise ValueError('invalid literal for int() with base 10: <abstract with %r>' % p.v)
        src = _mixed_source(val)
        return nondet_int_of_text(src, 0, val.length(), val.length())
    if isinstance(val, IntStr):
        raise Unsupported('int(str(symbolic))')
    if base != 10:
        return builtins.int(val, base)
    return builtins.int(val)


class _IntMeta(type):
    def __instancecheck__(cls, obj):
        return builtins.isinstance(obj, (builtins.int, SInt))

    def __call__(cls, *a, **k):
        return sh_int(*a, **k)

    def __getattr__(cls, name):
        real = getattr(builtins.int, name)
        if callable(real) and not isinstance(builtins.int.__dict__.get(name), (builtins.staticmethod, builtins.classmethod)):
            def unbound(self, *a, **k):
                if builtins.isinstance(self, builtins.int):
                    return real(self, *a, **k)
                return getattr(self, name)(*a, **k)
            return unbound
        return real


class IntLike(metaclass=_IntMeta):
    """stands in for `int` (callable, isinstance target, from_bytes)"""
    @staticmethod
    def from_bytes(b, byteorder='big', **k):
        if hasattr(b, '__sfrom_bytes__'):
            return b.__sfrom_bytes__(byteorder)
        return builtins.int.from_bytes(b, byteorder=byteorder, **k)


def _derived(p):
    """stable identity for (source, chain): the text/bytes view of a source under a codec chain"""
    d = p.src.derived.get(p.chain)
    if d is None:
        d = Source('%s|%s' % (p.src.name, '|'.join('%s:%s' % c for c in p.chain)), 't', p.src.length)
        d.base = (p.src, p.chain)
        p.src.derived[p.chain] = d
    return d


_MIXED = {}


def _mixed_source(val):
    ex = core.cur()
    tab = ex.__dict__.setdefault('_mixed_sources', [])
    for r, s in tab:
        if rope._same_structure(r, val):
            return s
    s = Source('mixed%d' % len(tab), 't', val.length())
    s.mixed_of = val
    tab.append((val, s))
    return s


def _same_structure(a, b):
    pa, pb = a.pieces, b.pieces
    return len(pa) == len(pb) and all(rope._same_piece(p, q) for p, q in zip(pa, pb))


rope._same_structure = _same_structure


class LazyFmt:
    """format(symbolic, '') inside messages: never realised"""
    def __init__(self, v):
        self.v = v

    def __add__(self, o):
        return self

    def __radd__(self, o):
        return self

    def __str__(self):
        return '<symbolic %s>' % (self.v,)


def _parse_int_spec(spec):
    """'0N' / '0Nd' / 'N' -> (zero_pad, width) or None"""
    s = spec[:-1] if spec.endswith('d') else spec
    if s == '':
        return (False, 0)
    if s.isdigit():
        return (s[0] == '0', builtins.int(s))
    return None


def sh_format(val, spec=''):
    if isinstance(spec, IntStr):
        # only shape: '<' + str(n)   (left-justify to symbolic width n)
        parts = spec.parts
        if len(parts) == 2 and parts[0] == '<' and isinstance(parts[1], SInt):
            w = parts[1]
            n = sh_len(val)
            if same_int(n, w):
                return val
            if n >= w:
                return val
            return rope.as_rope(val) + mk('t', [Fill(' ', w - n)])
        if len(parts) == 2 and parts[0] == '0' and isinstance(val, (int, SInt)):
            raise Unsupported('zero pad to symbolic width')
        raise Unsupported('format spec built from symbolic int: %r' % (parts,))
    if hasattr(val, '__sformat__'):
        return val.__sformat__(spec)
    if isinstance(val, Rope):
        if spec == '':
            return val
        if val.kind != 't':
            raise TypeError('unsupported format string passed to bytes.__format__')
        if spec[0] == '<' and spec[1:].isdigit():
            w = builtins.int(spec[1:])
            n = val.length()
            if isinstance(n, int):
                return val if n >= w else val + mk('t', [Fill(' ', w - n)])
            if n >= w:
                return val
            return val + mk('t', [Fill(' ', w - n)])
        raise Unsupported('format spec %r on abstract text' % spec)
    if isinstance(val, SInt):
        if spec == '':
            return LazyFmt(val)
        ps = _parse_int_spec(spec)
        if ps is not None and ps[0]:
            if val < 0:
                raise Unsupported('negative symbolic int formatted')
            return mk('t', [Num(val, ps[1])])
        raise Unsupported('format(symbolic int, %r)' % spec)
    if isinstance(val, (IntStr, LazyFmt)):
        return LazyFmt(val)
    return builtins.format(val, spec)


def sh_repr(x):
    if isinstance(x, (Rope, SInt, SBool)):
        return LazyFmt(x)
    return builtins.repr(x)


def sh_mul(a, b):
    """a * b (loader normalisation N4): sequence repetition with a symbolic count stays symbolic"""
    for s, k in ((a, b), (b, a)):
        if (getattr(s, '__is_symstr__', False) or getattr(s, '__is_symbytes__', False)) and isinstance(k, builtins.int):
            return s.__mul__(k)
    for s, k in ((a, b), (b, a)):
        if isinstance(k, SInt) and isinstance(s, (builtins.str, builtins.bytes)):
            if builtins.len(s) == 0:
                return s
            if builtins.len(s) != 1:
                raise Unsupported('repetition of a multi-element literal by a symbolic count')
            cnt = core.s_max(k, 0)
            return mk('t' if isinstance(s, builtins.str) else 'b', [Fill(s, cnt)])
    for s, k in ((a, b), (b, a)):
        if isinstance(k, SInt) and isinstance(s, (builtins.list, builtins.tuple)):
            return s * core.cur().concretize(k, limit=64)          # repetition of a list: the count is enumerated
    return a * b


def sh_getitem(obj, key):
    """obj[key] (loader normalisation N6)"""
    if isinstance(key, slice) and type(obj) in (builtins.bytes, builtins.str):
        if isinstance(key.start, SInt) or isinstance(key.stop, SInt):
            if builtins.len(obj) == 0:
                return obj
            return rope.as_rope(obj)[key]
    return obj[key]


# ------------------------------------------------------------------ struct

class _LibMeta(type):
    """stub of a library module: names the stub does not define come from the real module"""
    def __getattr__(cls, name):
        if name.startswith('__'):
            raise AttributeError(name)
        return getattr(cls._real, name)


class StructStub(metaclass=_LibMeta):
    _real = _struct
    error = _struct.error
    calcsize = staticmethod(_struct.calcsize)

    @staticmethod
    def pack(fmt, *args):
        if builtins.len(args) == 1 and isinstance(args[0], SInt) and fmt in ('>I', '<I', '!I', '>i', '<i'):
            n = args[0]
            if fmt[1] == 'I':
                if not (s_and(n >= 0, n <= 0xFFFFFFFF)):
                    raise _struct.error("'I' format requires 0 <= number <= 4294967295")
            return mk('b', [U32(n, fmt)])
        if any(isinstance(a, (SInt, Rope)) for a in args):
            raise Unsupported('struct.pack(%r) with symbolic arguments' % (fmt,))
        return _struct.pack(fmt, *args)

    @staticmethod
    def unpack(fmt, data):
        if isinstance(fmt, IntStr):
            # shape  "<k>s<k>s" + str(n) + "s"
            if builtins.len(fmt.parts) != 3 or fmt.parts[2] != 's' or not isinstance(fmt.parts[0], builtins.str):
                raise Unsupported('struct format %r' % (fmt.parts,))
            head, n = fmt.parts[0], fmt.parts[1]
            if not isinstance(n, SInt):
                raise Unsupported('struct format %r' % (fmt.parts,))
            sizes = [builtins.int(t) for t in head.split('s') if t] + [n]
            if n < 0:
                raise _struct.error('bad char in struct format')
            return StructStub._split(sizes, data)
        if isinstance(data, Rope):
            if _re.fullmatch(r'(\d+s)+', fmt):
                sizes = [builtins.int(t) for t in fmt.split('s') if t]
                return StructStub._split(sizes, data)
            if fmt in ('>I', '<I', '!I'):
                return (StructStub._u32(fmt, data),)
            if fmt in ('>B', 'B', '<B'):
                n = data.length()
                if not (s_eq(n, 1)):
                    raise _struct.error('unpack requires a buffer of 1 bytes')
                p = _first_nonempty(data)
                if isinstance(p, Opq):
                    return (p.src.peek(p.lo, p.chain),)
                raise Unsupported('unpack B of %r' % (p,))
            m = _re.fullmatch(r'([<>!=@]?)([bBhH])', fmt)
            if m:
                # one small integer: composed from the individual bytes (peek table), two's complement for the signed codes
                size = 1 if m.group(2) in 'bB' else 2
                if not (s_eq(data.length(), size)):
                    raise _struct.error('unpack requires a buffer of %d bytes' % size)
                bs = [sh_getitem(data, k) for k in builtins.range(size)]
                if m.group(1) in ('<', '=', '@', '') and size == 2:
                    bs.reverse()
                v = 0
                for b in bs:
                    v = v * 256 + b
                if m.group(2) in 'bh':
                    half = 1 << (8 * size - 1)
                    if isinstance(v, SInt):
                        v = core.s_ite(v >= half, v - 2 * half, v)
                    elif v >= half:
                        v -= 2 * half
                return (v,)
            raise Unsupported('struct.unpack(%r) on abstract bytes' % (fmt,))
        return _struct.unpack(fmt, data)

    @staticmethod
    def unpack_from(fmt, buffer, offset=0):
        if isinstance(buffer, Rope) and isinstance(fmt, builtins.str):
            size = _struct.calcsize(fmt)
            n = sh_len(buffer)
            if not (s_and(offset >= 0, offset + size <= n)):
                raise _struct.error('unpack_from requires a buffer of at least %d bytes for unpacking %d bytes at offset' % (size, size))
            return StructStub.unpack(fmt, sh_getitem(buffer, slice(offset, offset + size)))
        return _struct.unpack_from(fmt, buffer, offset)

    @staticmethod
    def _split(sizes, data):
        total = 0
        for s in sizes:
            total = total + s
        if not (s_eq(total, sh_len(data))):
            raise _struct.error('unpack requires a buffer of %s bytes' % (total,))
        out = []
        pos = 0
        for s in sizes:
            out.append(sh_getitem(data, slice(pos, pos + s)))
            pos = pos + s
        return tuple(out)

    @staticmethod
    def _u32(fmt, data):
        n = data.length()
        if not (s_eq(n, 4)):
            raise _struct.error('unpack requires a buffer of 4 bytes')
        at = rope.whole_atom(data)
        if isinstance(at, U32):
            if at.fmt == fmt or {at.fmt, fmt} <= {'>I', '!I'}:
                return at.n
            raise Unsupported('u32 unpacked with a different byte order')
        conc = rope.try_concrete(data)
        if conc is not None:
            return _struct.unpack(fmt, conc)[0]
        ps = rope.nonempty_pieces(data)
        if all(isinstance(p, Opq) and not p.chain for p in ps):
            # arbitrary file content: a fresh 32-bit value, memoised per position
            p = ps[0]
            memo = p.src.__dict__.setdefault('u32s', [])
            for pos, v in memo:
                if same_int(pos, p.lo):
                    return v
            v = core.cur().fresh_int('u32_%s' % p.src.name, 0, 0xFFFFFFFF)
            memo.append((p.lo, v))
            core.note('u32', p.src.name, p.lo, v)
            return v
        core.note('imprecise', 'u32 read from mixed pieces %r: arbitrary value' % (ps,))
        v = core.cur().fresh_int('u32_mixed', 0, 0xFFFFFFFF)
        return v


core.PATH_RESET.append(lambda: ABSTRACT_BITMAPS.__setitem__(0, False))
ABSTRACT_BITMAPS = [False]     # a harness that wants bitmaps of arbitrary bits (one fork per bit) switches this on for its paths


def bits_of(data, endian='big'):
    """model of BitArray.tolist for abstract bytes: one truth value per bit, most significant bit of each byte first ('big')"""
    if isinstance(data, Rope):
        conc = rope.try_concrete(data)          # e.g. a lazy view on a literal whose offsets are decided on this path
        if conc is not None:
            data = conc
    if isinstance(data, Rope) and not ABSTRACT_BITMAPS[0]:
        raise Unsupported('bit list of an abstract bitmap')
    n = sh_len(data)
    if not isinstance(n, builtins.int):
        n = core.cur().concretize(n, limit=64)
    out = []
    for i in builtins.range(n):
        b = sh_getitem(data, i)
        order = builtins.range(7, -1, -1) if endian == 'big' else builtins.range(8)
        for k in order:
            if isinstance(b, SInt):
                out.append(core.s_eq((b // (1 << k)) % 2, 1))
            else:
                out.append(bool((b >> k) & 1))
    return out


def _first_nonempty(r):
    for p in r.pieces:
        L = p.length()
        if isinstance(L, int):
            if L > 0:
                return p
        elif L > 0:
            return p
    return None


# ------------------------------------------------------------------ files

class RopeFile:
    """in-memory binary file over ropes with io.BytesIO semantics (positional overwrite)"""

    def __init__(self, initial=b'', readable=True, seekable=True):
        self.content = initial
        self.pos = 0
        self.closed = False
        self.log = []
        self._readable = readable
        self._seekable = seekable           # False: a forward-only stream (pipe, socket): seek and tell raise io.UnsupportedOperation

    def _chk(self):
        if self.closed:
            raise ValueError('I/O operation on closed file.')

    def size(self):
        return rlen(self.content)

    def write(self, data):
        self._chk()
        if not isinstance(data, (builtins.bytes, builtins.bytearray, BRope)):
            raise TypeError("a bytes-like object is required, not '%s'" % type(data).__name__)
        n = rlen(data)
        size = self.size()
        self.log.append(('write', self.pos, n))
        if same_int(self.pos, size):
            self.content = rope.as_rope(self.content) + data if isinstance(self.content, Rope) or isinstance(data, Rope) \
                else self.content + builtins.bytes(data)
        else:
            c = rope.as_rope(self.content)
            if self.pos > size:
                raise Unsupported('write beyond end of file')
            end = self.pos + n
            head = c.cut(0, self.pos)
            if end >= size:
                tail = b''
            else:
                tail = c.cut(end, size)
            self.content = norm('b', rope.pieces_of(head) + rope.pieces_of(data) + rope.pieces_of(tail))
        self.pos = self.pos + n
        return n

    def read(self, n=-1):
        self._chk()
        if not self._readable:
            raise _io.UnsupportedOperation('read')
        size = self.size()
        if n is None:
            n = -1
        if isinstance(n, int):
            if n < 0:
                end = size
            else:
                end = self.pos + n
        else:
            end = size if (n < 0) else self.pos + n
        if same_int(end, size):
            pass
        elif end > size:
            end = size
        if isinstance(self.content, Rope):
            if self.pos >= size:
                out = b''
                end = self.pos
            else:
                out = self.content.cut(self.pos, end)
        else:
            if isinstance(self.pos, int) and isinstance(end, int):
                out = self.content[self.pos:end]
                if end < self.pos:
                    end = self.pos
            else:
                if self.pos >= size:
                    out = b''
                    end = self.pos
                else:
                    out = rope.as_rope(self.content).cut(self.pos, end)
        self.pos = end
        return out

    def seekable(self):
        return self._seekable

    def seek(self, pos, whence=0):
        self._chk()
        if not self._seekable:
            raise _io.UnsupportedOperation('underlying stream is not seekable')
        if whence != 0:
            raise Unsupported('seek whence')
        self.log.append(('seek', pos))
        self.pos = pos
        return pos

    def tell(self):
        self._chk()
        if not self._seekable:
            raise _io.UnsupportedOperation('underlying stream is not seekable')
        return self.pos

    def close(self):
        self.closed = True

    def getvalue(self):
        return self.content

    def flush(self):
        pass

    def readable(self):
        return self._readable

    def readinto(self, b):
        if not isinstance(b, RopeArray):
            raise Unsupported('readinto a real buffer from an abstract file')
        data = self.read(b.n)
        return b._fill(data)

    def writable(self):
        return True

    def __enter__(self):
        self._chk()
        return self

    def __exit__(self, *a):
        self.close()


class RopeArray:
    """bytearray(n) used as a reusable read buffer: content is a rope; readinto() overwrites a prefix, slices read the content"""
    def __init__(self, n):
        self.n = n
        self.content = builtins.bytes(n) if isinstance(n, builtins.int) else mk('b', [Fill(b'\x00', n)])

    def __len__(self):
        if isinstance(self.n, builtins.int):
            return self.n
        raise Unsupported('len() of a symbolic-size buffer')

    def __slen__(self):
        return self.n

    def __getitem__(self, k):
        return sh_getitem(self.content, k) if isinstance(k, slice) else self.content[k]

    def _fill(self, data):
        k = rlen(data)
        rest = sh_getitem(self.content, slice(k, None))
        self.content = norm('b', rope.pieces_of(data) + rope.pieces_of(rest))
        return k


def sh_bytearray(*a, **kw):
    if builtins.len(a) == 1 and isinstance(a[0], (builtins.int, SInt)) and not isinstance(a[0], bool):
        return RopeArray(a[0])
    return builtins.bytearray(*a, **kw)


class IoStub(metaclass=_LibMeta):
    _real = _io
    BytesIO = RopeFile
    StringIO = _io.StringIO
    SEEK_SET = 0


# ------------------------------------------------------------------ binascii

class BinasciiStub(metaclass=_LibMeta):
    _real = _binascii
    Error = _binascii.Error

    @staticmethod
    def hexlify(x, *a):
        if hasattr(x, '__shexlify__'):
            return x.__shexlify__()
        if isinstance(x, Rope):
            if x.kind != 'b':
                raise TypeError('a bytes-like object is required')
            return mk('b', [rope.HexP(x)])
        return _binascii.hexlify(x, *a)

    b2a_hex = hexlify

    @staticmethod
    def unhexlify(x):
        if hasattr(x, '__sunhexlify__'):
            return x.__sunhexlify__()
        if isinstance(x, Rope):
            # abstract text as hex digits: documented behaviour on non-hex input is binascii.Error
            ok = core.cur().fresh_bool('hex_ok')
            if not ok:
                raise _binascii.Error('Non-hexadecimal digit found [abstract]')
            raise Unsupported('unhexlify of abstract hex digits')
        return _binascii.unhexlify(x)

    a2b_hex = unhexlify


# ------------------------------------------------------------------ datetime

_DIRECTIVES = {'y': 2, 'Y': 4, 'm': 2, 'd': 2, 'H': 2, 'M': 2, 'S': 2}
_COMPS = ('Y', 'm', 'd', 'H', 'M', 'S')
_DEFAULTS = {'Y': 1900, 'm': 1, 'd': 1, 'H': 0, 'M': 0, 'S': 0}


def date_layout(fmt):
    """[(offset, width, directive or None, literal)] of a strftime format made of fixed-width numeric directives and literal
    characters; None when the format contains anything else"""
    out = []
    i = 0
    off = 0
    while i < builtins.len(fmt):
        ch = fmt[i]
        if ch == '%':
            if i + 1 >= builtins.len(fmt):
                return None
            d = fmt[i + 1]
            if d == '%':
                out.append((off, 1, None, '%'))
                off += 1
            elif d in _DIRECTIVES:
                out.append((off, _DIRECTIVES[d], d, None))
                off += _DIRECTIVES[d]
            else:
                return None
            i += 2
        else:
            out.append((off, 1, None, ch))
            off += 1
            i += 1
    return out


class SymDate:
    """a symbolic datetime: six integer components.  `fmt` (when given) names the strftime format the value has to be representable
    in: components the format does not carry are at the values strptime would give them, a two-digit year lies in CPython's window
    1969..2068"""
    _is_symdate = True

    def __init__(self, name, fmt=None, comps=None):
        self.name = name
        if comps is not None:
            self.c = dict(comps)
            return
        ex = core.cur()
        present = None
        if fmt is not None:
            lay = date_layout(fmt)
            present = {d for _, _, d, _ in lay if d} if lay is not None else None
        c = {}

        def has(*ds):
            return present is None or builtins.any(d in present for d in ds)
        if has('y', 'Y'):
            if present is not None and 'Y' in present and 'y' not in present:
                c['Y'] = ex.fresh_int(name + '_Y', 1000, 9999)
            else:
                c['Y'] = ex.fresh_int(name + '_Y', 1969, 2068)
        for k, lo, hi in (('m', 1, 12), ('d', 1, 31), ('H', 0, 23), ('M', 0, 59), ('S', 0, 59)):
            if has(k):
                c[k] = ex.fresh_int('%s_%s' % (name, k), lo, hi)
        for k in _COMPS:
            c.setdefault(k, _DEFAULTS[k])
        self.c = c
        self._assume_valid_day()

    def _assume_valid_day(self):
        d, m, Y = self.c['d'], self.c['m'], self.c['Y']
        if isinstance(d, SInt):
            core.assume(_day_ok(Y, m, d))

    # -- components
    year = property(lambda self: self.c['Y'])
    month = property(lambda self: self.c['m'])
    day = property(lambda self: self.c['d'])
    hour = property(lambda self: self.c['H'])
    minute = property(lambda self: self.c['M'])
    second = property(lambda self: self.c['S'])
    microsecond = 0
    tzinfo = None

    def directive_value(self, d):
        if d == 'y':
            return self.c['Y'] % 100
        return self.c[d]

    def concrete(self, ev):
        return _datetime.datetime(*[ev(self.c[k]) for k in _COMPS])

    def render(self, fmt, ev):
        return self.concrete(ev).strftime(fmt)

    def witness(self, ev):
        return {'date': [ev(self.c[k]) for k in _COMPS]}

    def __sformat__(self, spec):
        width = builtins.len(_datetime.datetime(2021, 12, 13, 14, 15, 16).strftime(spec))
        return mk('t', [Tok(self, spec, width)])

    def strftime(self, fmt):
        return self.__sformat__(fmt)

    def isoformat(self, sep='T'):
        return self.__sformat__('%Y-%m-%d' + sep + '%H:%M:%S')

    def __str__(self):
        return self.isoformat(' ')

    def replace(self, **kw):
        names = {'year': 'Y', 'month': 'm', 'day': 'd', 'hour': 'H', 'minute': 'M', 'second': 'S'}
        c = dict(self.c)
        for k, v in kw.items():
            if k not in names:
                raise Unsupported('datetime.replace(%s=...)' % k)
            c[names[k]] = v
        return SymDate(self.name + "'", comps=c)

    def _comps_of(self, o):
        if isinstance(o, SymDate):
            return [o.c[k] for k in _COMPS]
        if isinstance(o, _datetime.datetime):
            if o.microsecond or o.tzinfo is not None:
                return None
            return [o.year, o.month, o.day, o.hour, o.minute, o.second]
        return None

    def __eq__(self, o):
        if o is self:
            return True
        oc = self._comps_of(o)
        if oc is None:
            return False
        return s_and(*[core.s_eq(a, b) for a, b in zip([self.c[k] for k in _COMPS], oc)])

    def __ne__(self, o):
        return core.s_not(self.__eq__(o))

    def _key(self, comps):
        v = 0
        for x, mul in zip(comps, (12, 32, 24, 60, 60, 1)):
            v = (v + x) * mul if mul != 1 else v + x
        return v

    def __lt__(self, o):
        oc = self._comps_of(o)
        if oc is None:
            return NotImplemented
        return self._key([self.c[k] for k in _COMPS]) < self._key(oc)

    def __le__(self, o):
        oc = self._comps_of(o)
        if oc is None:
            return NotImplemented
        return self._key([self.c[k] for k in _COMPS]) <= self._key(oc)

    def __gt__(self, o):
        oc = self._comps_of(o)
        if oc is None:
            return NotImplemented
        return self._key([self.c[k] for k in _COMPS]) > self._key(oc)

    def __ge__(self, o):
        oc = self._comps_of(o)
        if oc is None:
            return NotImplemented
        return self._key([self.c[k] for k in _COMPS]) >= self._key(oc)

    def __hash__(self):
        return builtins.id(self)

    def __repr__(self):
        return 'SymDate(%s)' % self.name


def _day_ok(Y, m, d):
    """d is a valid day of month m in year Y (Gregorian)"""
    leap = s_and(core.s_eq(Y % 4, 0), core.s_or(core.s_not(core.s_eq(Y % 100, 0)), core.s_eq(Y % 400, 0))) if isinstance(Y, SInt) else \
        (Y % 4 == 0 and (Y % 100 != 0 or Y % 400 == 0))
    is30 = core.s_or(*[core.s_eq(m, k) for k in (4, 6, 9, 11)])
    isfeb = core.s_eq(m, 2)
    return s_and(d >= 1, d <= 31, core.s_implies(is30, d <= 30), core.s_implies(isfeb, d <= 29),
                 core.s_implies(s_and(isfeb, core.s_not(leap)), d <= 28))


def dates_equal(a, b):
    """harness helper: equality of two datetime values of which at least one is symbolic"""
    if a is b:
        return True
    if isinstance(a, SymDate):
        return a.__eq__(b)
    if isinstance(b, SymDate):
        return b.__eq__(a)
    return a == b


def _parse_tok(at, fmt):
    """strptime(strftime(d, at.fmt), fmt) on the token itself"""
    d = at.d
    if at.fmt != fmt:
        src = date_layout(at.fmt)
        dst = date_layout(fmt)
        if src is None or dst is None:
            raise ValueError('time data does not match format [abstract token, other format]')
        # other format: position by position; every directive of `fmt` has to read exactly one directive field of the token
        fields = {off: (w, dd, lit) for off, w, dd, lit in src}
        vals = {}
        for off, w, dd, lit in dst:
            f = fields.get(off)
            if f is None or f[0] != w:
                raise Unsupported('strptime of a date token with a differently laid out format')
            if dd is None:
                if f[1] is not None or f[2] != lit:
                    raise ValueError('time data does not match format')
                continue
            if f[1] is None:
                raise ValueError('time data does not match format')
            vals[dd] = d.directive_value(f[1]) if f[1] != dd else d.directive_value(dd)
        if builtins.sum(w for _, w, _, _ in dst) != builtins.sum(w for _, w, _, _ in src):
            raise ValueError('unconverted data remains')
    else:
        lay = date_layout(fmt)
        if lay is None:
            return d           # formats outside the numeric model: opaque token, identity (representable dates assumed)
        vals = {dd: d.directive_value(dd) for _, _, dd, _ in lay if dd}
    c = {}
    if 'Y' in vals:
        c['Y'] = vals['Y']
    elif 'y' in vals:
        yy = vals['y']
        c['Y'] = core.s_ite(yy >= 69, 1900 + yy, 2000 + yy) if isinstance(yy, SInt) else (1900 + yy if yy >= 69 else 2000 + yy)
    for k in ('m', 'd', 'H', 'M', 'S'):
        if k in vals:
            c[k] = vals[k]
    for k in _COMPS:
        c.setdefault(k, _DEFAULTS[k])
    # range checks strptime performs
    for k, lo, hi in (('m', 1, 12), ('d', 1, 31), ('H', 0, 23), ('M', 0, 59), ('S', 0, 61)):
        v = c[k]
        if not (s_and(v >= lo, v <= hi)):
            raise ValueError('time data does not match format')
    if not (_day_ok(c['Y'], c['m'], c['d'])):
        raise ValueError('day is out of range for month')
    # the same value again (the usual case): hand the original object back, so that identity-based reasoning keeps working
    if builtins.all(core.same_int(c[k], d.c[k]) for k in _COMPS):
        return d
    eq = s_and(*[core.s_eq(c[k], d.c[k]) for k in _COMPS])
    if core.cur().must(eq):
        return d
    return SymDate(d.name + '~', comps=c)


class _DTMeta(type):
    def __instancecheck__(cls, obj):
        return builtins.isinstance(obj, (_datetime.datetime, SymDate))

    def __call__(cls, *a, **k):
        names = ('year', 'month', 'day', 'hour', 'minute', 'second')
        vals = list(a[:6]) + [None] * (6 - builtins.len(a[:6]))
        for i, nm in enumerate(names):
            if nm in k:
                vals[i] = k[nm]
        if builtins.any(isinstance(v, SInt) for v in vals) and builtins.len(a) <= 6 and not (set(k) - set(names)):
            if vals[0] is None or vals[1] is None or vals[2] is None:
                raise TypeError('function missing required argument')
            vals = [0 if v is None else v for v in vals]
            for v, lo, hi, what in zip(vals, (1, 1, 1, 0, 0, 0), (9999, 12, 31, 23, 59, 59), names):
                if not (s_and(v >= lo, v <= hi)):
                    raise ValueError('%s is out of range' % what)
            if not (_day_ok(vals[0], vals[1], vals[2])):
                raise ValueError('day is out of range for month')
            return SymDate(core.cur()._uniq('built_date'), comps=dict(zip(_COMPS, vals)))
        return _datetime.datetime(*a, **k)


class DateTimeLike(metaclass=_DTMeta):
    @staticmethod
    def strptime(text, fmt):
        if isinstance(text, Rope):
            at = rope.whole_atom(text)
            if isinstance(at, Tok) and not at.chain:
                return _parse_tok(at, fmt)
            # abstract text: nondeterministic -- ValueError or some opaque datetime (memoised per text slice)
            ex = core.cur()
            memo = ex.__dict__.setdefault('_strptime_memo', [])
            if ex.__dict__.get('_strptime_path') != ex.stats.paths:
                memo.clear()
                ex._strptime_path = ex.stats.paths
            for r, f, res in memo:
                if f == fmt and rope._same_structure(r, text):
                    if res is None:
                        raise ValueError('time data does not match format [abstract]')
                    return res
            ok = ex.fresh_bool('strptime_ok')
            res = SymDate(ex._uniq('parsed_date'), fmt=fmt) if ok else None
            memo.append((text, fmt, res))
            if res is None:
                raise ValueError('time data does not match format [abstract]')
            return res
        return _datetime.datetime.strptime(text, fmt)

    @staticmethod
    def fromisoformat(text):
        if isinstance(text, Rope):
            raise Unsupported('fromisoformat of abstract text')
        return _datetime.datetime.fromisoformat(text)

    now = staticmethod(_datetime.datetime.now)


class DatetimeStub(metaclass=_LibMeta):
    _real = _datetime
    datetime = DateTimeLike
    date = _datetime.date
    timedelta = _datetime.timedelta


# ------------------------------------------------------------------ re (DE43 only)

class _Match:
    def __init__(self, groups):
        self._g = groups

    def groupdict(self):
        return dict(self._g)


class ReStub(metaclass=_LibMeta):
    _real = _re
    @staticmethod
    def match(pattern, text, flags=0):
        if isinstance(text, Rope):
            ex = core.cur()
            ok = ex.fresh_bool('re_match')
            if not ok:
                return None
            names = list(_re.compile(pattern).groupindex)
            out = {}
            for nm in names:
                L = ex.fresh_int('re_%s_len' % nm, 0, 40)
                src = Source(ex._uniq('re_' + nm), 't', L)
                out[nm] = StrippableText([src.whole()])
            ex.note('re', pattern)
            return _Match(out)
        return _re.match(pattern, text, flags)

    compile = _re.compile
    fullmatch = _re.fullmatch
    search = _re.search
    sub = _re.sub


class StrippableText(TRope):
    """opaque text on which rstrip() yields another opaque text"""
    def rstrip(self, chars=None):
        ex = core.cur()
        p = self.pieces[0]
        L = ex.fresh_int('rstrip_len', 0)
        core.assume(L <= p.length())
        r = StrippableText([Opq(p.src, p.lo, p.lo + L, p.chain)])
        r.stripped_of = self
        r.strip_kind = 'right'
        return r

    def strip(self, chars=None):
        r = self.rstrip(chars)
        r.strip_kind = 'both'
        return r

    def lstrip(self, chars=None):
        r = self.rstrip(chars)
        r.strip_kind = 'left'
        return r


# ------------------------------------------------------------------ csv (row layer only; the text layer is the C _csv module)

class CsvOut:
    """stands for a text file that receives CSV: records header and rows instead of rendering text"""
    def __init__(self):
        self.header = None
        self.rows = []

    def write(self, s):
        raise Unsupported('raw text written to a CSV stub file')


class CsvIn:
    def __init__(self, fieldnames, rows):
        self.fieldnames = list(fieldnames)
        self.rows = [dict(r) for r in rows]


class _DictWriter:
    def __init__(self, f, fieldnames, restval='', extrasaction='raise', *a, **kw):
        self.f = f
        self.fieldnames = list(fieldnames)
        self.restval = restval
        self.extrasaction = extrasaction

    def writeheader(self):
        self.f.header = list(self.fieldnames)

    def writerow(self, d):
        if self.extrasaction == 'raise':
            wrong = [k for k in d if k not in self.fieldnames]
            if wrong:
                raise ValueError('dict contains fields not in fieldnames: %r' % wrong)
        self.f.rows.append({k: d.get(k, self.restval) for k in self.fieldnames})

    def writerows(self, rows):
        for d in rows:
            self.writerow(d)


class _DictReader:
    """rows come from the harness; reader options that change cell values are modelled, any other option is refused"""
    def __init__(self, f, *a, **kw):
        self.f = f
        self.fieldnames = f.fieldnames
        self.skipinitialspace = bool(kw.pop('skipinitialspace', False))
        for k in ('dialect', 'restkey', 'restval', 'fieldnames'):
            kw.pop(k, None)
        if kw or a:
            raise Unsupported('csv.DictReader options %r' % (sorted(kw) or a,))

    def _cell(self, v):
        if not self.skipinitialspace:
            return v
        # csv drops the blanks that follow a delimiter: an (unquoted) cell that begins with k blanks loses them
        if isinstance(v, builtins.str):
            return v.lstrip(' ')
        if isinstance(v, TRope):
            n = v.length()
            k = core.cur().choose('leading_blanks', 3)
            if not (k <= n):
                raise core.PathAbort('cell shorter than its leading blanks')
            ps = rope.nonempty_pieces(v)
            if k and not (builtins.len(ps) == 1 and isinstance(ps[0], Opq)):
                raise core.PathAbort('only opaque cells can start with blanks')
            for i in builtins.range(k):
                core.assume(s_eq(ps[0].src.peek(ps[0].lo + i, ps[0].chain), 32))
            return v[k:] if k else v
        return v

    def __iter__(self):
        return iter([{c: self._cell(x) for c, x in r.items()} for r in self.f.rows])


class CsvStub(metaclass=_LibMeta):
    _real = _csv
    DictWriter = _DictWriter
    DictReader = _DictReader


class VirtualFS:
    """open() inside cardutil's command line modules: named RopeFiles (binary) / CSV stubs (text); no real file is touched"""
    def __init__(self):
        self.files = {}
        self.opened = []

    def reset(self):
        self.files = {}
        self.opened = []

    def open(self, name, mode='r', *a, **kw):
        enc = kw.get('encoding', a[1] if len(a) > 1 else None)
        self.opened.append({'name': name, 'mode': mode, 'encoding': enc, 'newline': kw.get('newline')})
        if 'b' in mode:
            if 'w' in mode:
                f = RopeFile()
                self.files[name] = f
                return f
            if name not in self.files:
                raise FileNotFoundError(name)
            src = self.files[name]
            return RopeFile(src.getvalue() if isinstance(src, RopeFile) else src)
        if 'w' in mode:
            f = CsvOut()
            f.__enter__ = lambda: f
            self.files[name] = f
            return _Ctx(f)
        if name not in self.files:
            raise FileNotFoundError(name)
        return _Ctx(self.files[name])


class _Ctx:
    def __init__(self, obj):
        self.obj = obj

    def __enter__(self):
        return self.obj

    def __exit__(self, *a):
        return False


VFS = VirtualFS()


class RangeLike:
    """range(...) whose membership test accepts symbolic integers (one formula instead of one comparison per element); iteration,
    len, indexing, reversal go to the real range.  A symbolic bound is enumerated only when the range is iterated."""
    def __init__(self, *a):
        if builtins.len(a) == 1:
            self.start, self.stop, self.step = 0, a[0], 1
        elif builtins.len(a) == 2:
            self.start, self.stop, self.step = a[0], a[1], 1
        else:
            self.start, self.stop, self.step = a
        if isinstance(self.step, SInt):
            self.step = core.cur().concretize(self.step, limit=16)
        if self.step == 0:
            raise ValueError('range() arg 3 must not be zero')
        self._real = None

    def real(self):
        if self._real is None:
            ex = core.cur()
            a = [ex.concretize(x, limit=64) if isinstance(x, SInt) else x for x in (self.start, self.stop, self.step)]
            self.start, self.stop, self.step = a
            self._real = builtins.range(*a)
        return self._real

    def __contains__(self, x):
        if builtins.isinstance(x, builtins.bool) or not builtins.isinstance(x, (builtins.int, SInt)):
            return x in self.real() if not builtins.isinstance(x, Rope) else False
        if not builtins.any(isinstance(v, SInt) for v in (x, self.start, self.stop)):
            return x in builtins.range(self.start, self.stop, self.step)
        st = self.step
        inside = s_and(x >= self.start, x < self.stop) if st > 0 else s_and(x <= self.start, x > self.stop)
        if st in (1, -1):
            return builtins.bool(inside)
        return builtins.bool(s_and(inside, core.s_eq((x - self.start) % st, 0)))

    def __iter__(self):
        return builtins.iter(self.real())

    def __len__(self):
        return builtins.len(self.real())

    def __getitem__(self, k):
        return self.real()[k]

    def __reversed__(self):
        return builtins.reversed(self.real())

    def __eq__(self, o):
        return self.real() == (o.real() if builtins.isinstance(o, RangeLike) else o)

    def __hash__(self):
        return builtins.hash(self.real())

    def __repr__(self):
        return 'range(%s, %s, %s)' % (self.start, self.stop, self.step)

    def index(self, v):
        return self.real().index(v)

    def count(self, v):
        return self.real().count(v)


def sh_range(*a):
    """range(): membership of a symbolic integer is one formula; a symbolic bound is enumerated when the range is iterated (forks; exact)"""
    return RangeLike(*a)


def sh_min(*a, **k):
    if len(a) == 2 and not k and any(isinstance(x, SInt) for x in a):
        return a[0] if (a[0] <= a[1]) else a[1]
    return builtins.min(*a, **k)


def sh_max(*a, **k):
    if len(a) == 2 and not k and any(isinstance(x, SInt) for x in a):
        return a[0] if (a[0] >= a[1]) else a[1]
    return builtins.max(*a, **k)


def sh_abs(x):
    if isinstance(x, SInt):
        return x if (x >= 0) else -x
    return builtins.abs(x)


def sh_bool(x=False):
    return True if x else False


SHADOWS = {
    'len': sh_len,
    'str': StrLike,
    'int': IntLike,
    'format': sh_format,
    'repr': sh_repr,
    'bytes': BytesLike,
    '__vmul__': sh_mul,
    '__vgetitem__': sh_getitem,
    '__fuel__': core.FUEL,
    'open': VFS.open,
    'range': sh_range,
    'bytearray': sh_bytearray,
    'min': sh_min,
    'max': sh_max,
    'abs': sh_abs,
}
