"""vsym.models -- module-global shadows installed into the loaded cardutil modules.

Every shadow is the identity on concrete arguments (defers to the real builtin / library) and
applies a stated model on symbolic / abstract arguments.  All of them are part of the trusted
base and are listed in the evidence files.
"""
import binascii as _binascii
import builtins
import datetime as _datetime
import io as _io
import re as _re
import struct as _struct

import z3

from . import core, rope
from .core import SInt, SBool, Unsupported, same_int, s_eq, s_and, s_or, s_not, mk_int
from .rope import Rope, TRope, BRope, Lit, Opq, Num, U32, Fill, Tok, Frag, Source, norm, mk, rlen


# ------------------------------------------------------------------ len / str / int / format

def sh_len(x):
    if isinstance(x, Rope):
        return x.length()
    if hasattr(x, '__slen__'):
        return x.__slen__()
    return builtins.len(x)


class IntStr:
    """str(symbolic int), kept lazy; only used to build struct formats and format specs"""
    def __init__(self, parts):
        self.parts = parts

    def __add__(self, o):
        return IntStr(self.parts + [o])

    def __radd__(self, o):
        return IntStr([o] + self.parts)

    def _sym(self):
        from .symstr import SymStr
        return SymStr.of(self)

    def __eq__(self, o):
        if isinstance(o, (IntStr, builtins.str)) or getattr(o, '__is_symstr__', False):
            return self._sym() == o
        return False

    def __ne__(self, o):
        return core.s_not(self.__eq__(o))

    def __hash__(self):
        return 19


def sh_str(x='', *a):
    if a:
        return builtins.str(x, *a)
    if isinstance(x, SInt):
        return IntStr([x])
    if hasattr(x, '__sstr__'):
        return x.__sstr__()
    if isinstance(x, TRope):
        return x
    if isinstance(x, BRope):
        raise Unsupported('str() of abstract bytes')
    return builtins.str(x)


class _StrMeta(type):
    def __instancecheck__(cls, obj):
        return builtins.isinstance(obj, (builtins.str, TRope)) or getattr(obj, '__is_symstr__', False)

    def __call__(cls, *a, **k):
        return sh_str(*a, **k)


class StrLike(metaclass=_StrMeta):
    """stands in for `str` (callable and isinstance target)"""


class _BytesMeta(type):
    def __instancecheck__(cls, obj):
        return builtins.isinstance(obj, (builtins.bytes, BRope))

    def __call__(cls, *a, **k):
        return builtins.bytes(*a, **k)


class BytesLike(metaclass=_BytesMeta):
    """stands in for `bytes` (callable and isinstance target)"""
    @staticmethod
    def fromhex(s):
        if isinstance(s, Rope):
            raise Unsupported('bytes.fromhex of abstract text')
        return builtins.bytes.fromhex(s)

    maketrans = staticmethod(builtins.bytes.maketrans)


_WS = ' \t\n\r\x0b\x0c\x1c\x1d\x1e\x1f\x85\xa0'


def nondet_int_of_text(src, lo, hi, L):
    """every outcome int() can have on an L-character opaque string: ValueError, or an integer
    representable in L characters.  Memoised per (source, range)."""
    key = None
    for k in src.ints:
        if same_int(k[0], lo) and same_int(k[1], hi):
            key = k
            break
    if key is None:
        # the same characters read again at an offset that is only semantically equal: same outcome (decided by the solver; may fork)
        for k in list(src.ints):
            if not (isinstance(k[0], int) and isinstance(lo, int)):
                if s_and(s_eq(k[0], lo), s_eq(k[1], hi)):
                    key = k
                    break
    if key is None:
        ex = core.cur()
        ok = ex.fresh_bool('int_ok_%s' % src.name)
        val = ex.fresh_int('int_val_%s' % src.name, named=True)
        for k in getattr(src, 'isdig', {}):
            if same_int(k[0], lo) and same_int(k[1], hi):
                key = k
        if key is None:
            key = (lo, hi)
        src.ints[key] = (ok, val)
    ok, val = src.ints[key]
    if isinstance(L, int) and L <= 0:
        raise ValueError("invalid literal for int() with base 10: ''")
    if not ok:
        raise ValueError("invalid literal for int() with base 10: <abstract>")
    # representable in L characters: -(10^(L-1)-1) .. 10^L-1 ; L is small at all call sites
    if not isinstance(L, int):
        L = core.cur().concretize(L, limit=12)
    if L <= 0:
        raise ValueError("invalid literal for int() with base 10: ''")
    core.assume(val <= 10 ** L - 1)
    core.assume(val >= -(10 ** (L - 1) - 1))
    _link_int_isdigit(src, key, L)
    return val


def _link_int_isdigit(src, key, L):
    """consistency between the nondeterministic outcomes of int() and str.isdigit() on the same opaque text"""
    if key not in src.ints or key not in getattr(src, 'isdig', {}):
        return
    ok, val = src.ints[key]
    dg = src.isdig[key]
    both = s_and(ok, dg)
    core.assume(core.s_implies(both, val >= 0))                       # '-5'.isdigit() is False
    if isinstance(L, int):
        if L == 1:
            core.assume(core.s_implies(ok, dg))                        # a single character that int() accepts is a digit
        else:
            # accepted by int() but not all digits: a sign / blank / underscore takes one position
            core.assume(core.s_implies(s_and(ok, s_not(dg), val >= 0), val <= 10 ** (L - 1) - 1))


def nondet_isdigit(src, lo, hi, L):
    """str.isdigit() on opaque text: any outcome (note: it may be True where int() fails, e.g. superscript digits)"""
    if not hasattr(src, 'isdig'):
        src.isdig = {}
    key = None
    for k in src.isdig:
        if same_int(k[0], lo) and same_int(k[1], hi):
            key = k
            break
    if key is None:
        for k in src.ints:
            if same_int(k[0], lo) and same_int(k[1], hi):
                key = k
                break
        if key is None:
            key = (lo, hi)
        src.isdig[key] = core.cur().fresh_bool('isdigit_%s' % src.name)
    if not isinstance(L, int):
        L = core.cur().concretize(L, limit=12)
    if L <= 0:
        return False
    _link_int_isdigit(src, key, L)
    return src.isdig[key]


def rope_isdigit(val):
    conc = rope.try_concrete(val)
    if conc is not None:
        return conc.isdigit()
    ps = rope.nonempty_pieces(val)
    if len(ps) == 1 and isinstance(ps[0], Opq):
        p = ps[0]
        return nondet_isdigit(_derived(p), p.lo, p.hi, p.length())
    at = rope.whole_atom(val)
    if isinstance(at, Num):
        return True
    raise Unsupported('isdigit on mixed abstract text')


def sh_int(val=0, base=10):
    if isinstance(val, (SInt,)):
        return val
    if isinstance(val, core.SQuot):
        return val.to_int()
    if hasattr(val, '__sint__'):
        return val.__sint__(base)
    if isinstance(val, Rope):
        if base != 10:
            raise Unsupported('int(rope, base=%r)' % base)
        if val.kind != 't':
            raise Unsupported('int() of abstract bytes')
        at = rope.whole_atom(val)
        if isinstance(at, Num) and not at.chain:
            return at.n
        conc = rope.try_concrete(val)
        if conc is not None:
            return builtins.int(conc)
        ps = rope.nonempty_pieces(val)
        if len(ps) == 1 and isinstance(ps[0], Opq):
            p = ps[0]
            return nondet_int_of_text(_derived(p), p.lo, p.hi, p.length())
        # mixed content: literal characters plus opaque ones -> nondeterministic as a whole
        for p in ps:
            if isinstance(p, Lit):
                s = p.v.strip(_WS)
                if s and not all(c.isdigit() or c in '+-_' for c in s):
                    raise ValueError('invalid literal for int() with base 10: <abstract with %r>' % p.v)
        src = _mixed_source(val)
        return nondet_int_of_text(src, 0, val.length(), val.length())
    if isinstance(val, IntStr):
        raise Unsupported('int(str(symbolic))')
    if base != 10:
        return builtins.int(val, base)
    return builtins.int(val)


class _IntMeta(type):
    def __instancecheck__(cls, obj):
        return builtins.isinstance(obj, (builtins.int, SInt))

    def __call__(cls, *a, **k):
        return sh_int(*a, **k)


class IntLike(metaclass=_IntMeta):
    """stands in for `int` (callable, isinstance target, from_bytes)"""
    @staticmethod
    def from_bytes(b, byteorder='big', **k):
        if hasattr(b, '__sfrom_bytes__'):
            return b.__sfrom_bytes__(byteorder)
        return builtins.int.from_bytes(b, byteorder=byteorder, **k)


def _derived(p):
    """stable identity for (source, chain): the text/bytes view of a source under a codec chain"""
    d = p.src.derived.get(p.chain)
    if d is None:
        d = Source('%s|%s' % (p.src.name, '|'.join('%s:%s' % c for c in p.chain)), 't', p.src.length)
        d.base = (p.src, p.chain)
        p.src.derived[p.chain] = d
    return d


_MIXED = {}


def _mixed_source(val):
    ex = core.cur()
    tab = ex.__dict__.setdefault('_mixed_sources', [])
    for r, s in tab:
        if rope._same_structure(r, val):
            return s
    s = Source('mixed%d' % len(tab), 't', val.length())
    s.mixed_of = val
    tab.append((val, s))
    return s


def _same_structure(a, b):
    pa, pb = a.pieces, b.pieces
    return len(pa) == len(pb) and all(rope._same_piece(p, q) for p, q in zip(pa, pb))


rope._same_structure = _same_structure


class LazyFmt:
    """format(symbolic, '') inside messages: never realised"""
    def __init__(self, v):
        self.v = v

    def __add__(self, o):
        return self

    def __radd__(self, o):
        return self

    def __str__(self):
        return '<symbolic %s>' % (self.v,)


def _parse_int_spec(spec):
    """'0N' / '0Nd' / 'N' -> (zero_pad, width) or None"""
    s = spec[:-1] if spec.endswith('d') else spec
    if s == '':
        return (False, 0)
    if s.isdigit():
        return (s[0] == '0', builtins.int(s))
    return None


def sh_format(val, spec=''):
    if isinstance(spec, IntStr):
        # only shape: '<' + str(n)   (left-justify to symbolic width n)
        parts = spec.parts
        if len(parts) == 2 and parts[0] == '<' and isinstance(parts[1], SInt):
            w = parts[1]
            n = sh_len(val)
            if same_int(n, w):
                return val
            if n >= w:
                return val
            return rope.as_rope(val) + mk('t', [Fill(' ', w - n)])
        if len(parts) == 2 and parts[0] == '0' and isinstance(val, (int, SInt)):
            raise Unsupported('zero pad to symbolic width')
        raise Unsupported('format spec built from symbolic int: %r' % (parts,))
    if hasattr(val, '__sformat__'):
        return val.__sformat__(spec)
    if isinstance(val, Rope):
        if spec == '':
            return val
        if val.kind != 't':
            raise TypeError('unsupported format string passed to bytes.__format__')
        if spec[0] == '<' and spec[1:].isdigit():
            w = builtins.int(spec[1:])
            n = val.length()
            if isinstance(n, int):
                return val if n >= w else val + mk('t', [Fill(' ', w - n)])
            if n >= w:
                return val
            return val + mk('t', [Fill(' ', w - n)])
        raise Unsupported('format spec %r on abstract text' % spec)
    if isinstance(val, SInt):
        if spec == '':
            return LazyFmt(val)
        ps = _parse_int_spec(spec)
        if ps is not None and ps[0]:
            if val < 0:
                raise Unsupported('negative symbolic int formatted')
            return mk('t', [Num(val, ps[1])])
        raise Unsupported('format(symbolic int, %r)' % spec)
    if isinstance(val, (IntStr, LazyFmt)):
        return LazyFmt(val)
    return builtins.format(val, spec)


def sh_repr(x):
    if isinstance(x, (Rope, SInt, SBool)):
        return LazyFmt(x)
    return builtins.repr(x)


def sh_mul(a, b):
    """a * b (loader normalisation N4): sequence repetition with a symbolic count stays symbolic"""
    for s, k in ((a, b), (b, a)):
        if (getattr(s, '__is_symstr__', False) or getattr(s, '__is_symbytes__', False)) and isinstance(k, builtins.int):
            return s.__mul__(k)
    for s, k in ((a, b), (b, a)):
        if isinstance(k, SInt) and isinstance(s, (builtins.str, builtins.bytes)):
            if builtins.len(s) == 0:
                return s
            if builtins.len(s) != 1:
                raise Unsupported('repetition of a multi-element literal by a symbolic count')
            cnt = core.s_max(k, 0)
            return mk('t' if isinstance(s, builtins.str) else 'b', [Fill(s, cnt)])
    return a * b


def sh_getitem(obj, key):
    """obj[key] (loader normalisation N6)"""
    if isinstance(key, slice) and type(obj) in (builtins.bytes, builtins.str):
        if isinstance(key.start, SInt) or isinstance(key.stop, SInt):
            if builtins.len(obj) == 0:
                return obj
            return rope.as_rope(obj)[key]
    return obj[key]


# ------------------------------------------------------------------ struct

class StructStub:
    error = _struct.error
    calcsize = staticmethod(_struct.calcsize)

    @staticmethod
    def pack(fmt, *args):
        if builtins.len(args) == 1 and isinstance(args[0], SInt) and fmt in ('>I', '<I', '!I', '>i', '<i'):
            n = args[0]
            if fmt[1] == 'I':
                if not (s_and(n >= 0, n <= 0xFFFFFFFF)):
                    raise _struct.error("'I' format requires 0 <= number <= 4294967295")
            return mk('b', [U32(n, fmt)])
        if any(isinstance(a, (SInt, Rope)) for a in args):
            raise Unsupported('struct.pack(%r) with symbolic arguments' % (fmt,))
        return _struct.pack(fmt, *args)

    @staticmethod
    def unpack(fmt, data):
        if isinstance(fmt, IntStr):
            # shape  "<k>s<k>s" + str(n) + "s"
            if builtins.len(fmt.parts) != 3 or fmt.parts[2] != 's' or not isinstance(fmt.parts[0], builtins.str):
                raise Unsupported('struct format %r' % (fmt.parts,))
            head, n = fmt.parts[0], fmt.parts[1]
            if not isinstance(n, SInt):
                raise Unsupported('struct format %r' % (fmt.parts,))
            sizes = [builtins.int(t) for t in head.split('s') if t] + [n]
            if n < 0:
                raise _struct.error('bad char in struct format')
            return StructStub._split(sizes, data)
        if isinstance(data, Rope):
            if _re.fullmatch(r'(\d+s)+', fmt):
                sizes = [builtins.int(t) for t in fmt.split('s') if t]
                return StructStub._split(sizes, data)
            if fmt in ('>I', '<I', '!I'):
                return (StructStub._u32(fmt, data),)
            if fmt in ('>B', 'B', '<B'):
                n = data.length()
                if not (s_eq(n, 1)):
                    raise _struct.error('unpack requires a buffer of 1 bytes')
                p = _first_nonempty(data)
                if isinstance(p, Opq):
                    return (p.src.peek(p.lo, p.chain),)
                raise Unsupported('unpack B of %r' % (p,))
            raise Unsupported('struct.unpack(%r) on abstract bytes' % (fmt,))
        return _struct.unpack(fmt, data)

    @staticmethod
    def _split(sizes, data):
        total = 0
        for s in sizes:
            total = total + s
        if not (s_eq(total, sh_len(data))):
            raise _struct.error('unpack requires a buffer of %s bytes' % (total,))
        out = []
        pos = 0
        for s in sizes:
            out.append(sh_getitem(data, slice(pos, pos + s)))
            pos = pos + s
        return tuple(out)

    @staticmethod
    def _u32(fmt, data):
        n = data.length()
        if not (s_eq(n, 4)):
            raise _struct.error('unpack requires a buffer of 4 bytes')
        at = rope.whole_atom(data)
        if isinstance(at, U32):
            if at.fmt == fmt or {at.fmt, fmt} <= {'>I', '!I'}:
                return at.n
            raise Unsupported('u32 unpacked with a different byte order')
        conc = rope.try_concrete(data)
        if conc is not None:
            return _struct.unpack(fmt, conc)[0]
        ps = rope.nonempty_pieces(data)
        if all(isinstance(p, Opq) and not p.chain for p in ps):
            # arbitrary file content: a fresh 32-bit value, memoised per position
            p = ps[0]
            memo = p.src.__dict__.setdefault('u32s', [])
            for pos, v in memo:
                if same_int(pos, p.lo):
                    return v
            v = core.cur().fresh_int('u32_%s' % p.src.name, 0, 0xFFFFFFFF)
            memo.append((p.lo, v))
            core.note('u32', p.src.name, p.lo, v)
            return v
        core.note('imprecise', 'u32 read from mixed pieces %r: arbitrary value' % (ps,))
        v = core.cur().fresh_int('u32_mixed', 0, 0xFFFFFFFF)
        return v


def _first_nonempty(r):
    for p in r.pieces:
        L = p.length()
        if isinstance(L, int):
            if L > 0:
                return p
        elif L > 0:
            return p
    return None


# ------------------------------------------------------------------ files

class RopeFile:
    """in-memory binary file over ropes with io.BytesIO semantics (positional overwrite)"""

    def __init__(self, initial=b'', readable=True):
        self.content = initial
        self.pos = 0
        self.closed = False
        self.log = []
        self._readable = readable

    def _chk(self):
        if self.closed:
            raise ValueError('I/O operation on closed file.')

    def size(self):
        return rlen(self.content)

    def write(self, data):
        self._chk()
        if not isinstance(data, (builtins.bytes, builtins.bytearray, BRope)):
            raise TypeError("a bytes-like object is required, not '%s'" % type(data).__name__)
        n = rlen(data)
        size = self.size()
        self.log.append(('write', self.pos, n))
        if same_int(self.pos, size):
            self.content = rope.as_rope(self.content) + data if isinstance(self.content, Rope) or isinstance(data, Rope) \
                else self.content + builtins.bytes(data)
        else:
            c = rope.as_rope(self.content)
            if self.pos > size:
                raise Unsupported('write beyond end of file')
            end = self.pos + n
            head = c.cut(0, self.pos)
            if end >= size:
                tail = b''
            else:
                tail = c.cut(end, size)
            self.content = norm('b', rope.pieces_of(head) + rope.pieces_of(data) + rope.pieces_of(tail))
        self.pos = self.pos + n
        return n

    def read(self, n=-1):
        self._chk()
        if not self._readable:
            raise _io.UnsupportedOperation('read')
        size = self.size()
        if n is None:
            n = -1
        if isinstance(n, int):
            if n < 0:
                end = size
            else:
                end = self.pos + n
        else:
            end = size if (n < 0) else self.pos + n
        if same_int(end, size):
            pass
        elif end > size:
            end = size
        if isinstance(self.content, Rope):
            if self.pos >= size:
                out = b''
                end = self.pos
            else:
                out = self.content.cut(self.pos, end)
        else:
            if isinstance(self.pos, int) and isinstance(end, int):
                out = self.content[self.pos:end]
                if end < self.pos:
                    end = self.pos
            else:
                if self.pos >= size:
                    out = b''
                    end = self.pos
                else:
                    out = rope.as_rope(self.content).cut(self.pos, end)
        self.pos = end
        return out

    def seek(self, pos, whence=0):
        self._chk()
        if whence != 0:
            raise Unsupported('seek whence')
        self.log.append(('seek', pos))
        self.pos = pos
        return pos

    def tell(self):
        self._chk()
        return self.pos

    def close(self):
        self.closed = True

    def getvalue(self):
        return self.content

    def flush(self):
        pass

    def readable(self):
        return self._readable

    def readinto(self, b):
        if not isinstance(b, RopeArray):
            raise Unsupported('readinto a real buffer from an abstract file')
        data = self.read(b.n)
        return b._fill(data)

    def writable(self):
        return True

    def __enter__(self):
        self._chk()
        return self

    def __exit__(self, *a):
        self.close()


class RopeArray:
    """bytearray(n) used as a reusable read buffer: content is a rope; readinto() overwrites a prefix, slices read the content"""
    def __init__(self, n):
        self.n = n
        self.content = builtins.bytes(n) if isinstance(n, builtins.int) else mk('b', [Fill(b'\x00', n)])

    def __len__(self):
        if isinstance(self.n, builtins.int):
            return self.n
        raise Unsupported('len() of a symbolic-size buffer')

    def __slen__(self):
        return self.n

    def __getitem__(self, k):
        return sh_getitem(self.content, k) if isinstance(k, slice) else self.content[k]

    def _fill(self, data):
        k = rlen(data)
        rest = sh_getitem(self.content, slice(k, None))
        self.content = norm('b', rope.pieces_of(data) + rope.pieces_of(rest))
        return k


def sh_bytearray(*a, **kw):
    if builtins.len(a) == 1 and isinstance(a[0], (builtins.int, SInt)) and not isinstance(a[0], bool):
        return RopeArray(a[0])
    return builtins.bytearray(*a, **kw)


class IoStub:
    BytesIO = RopeFile
    StringIO = _io.StringIO
    SEEK_SET = 0


# ------------------------------------------------------------------ binascii

class BinasciiStub:
    Error = _binascii.Error

    @staticmethod
    def hexlify(x, *a):
        if hasattr(x, '__shexlify__'):
            return x.__shexlify__()
        if isinstance(x, Rope):
            if x.kind != 'b':
                raise TypeError('a bytes-like object is required')
            return mk('b', [rope.HexP(x)])
        return _binascii.hexlify(x, *a)

    b2a_hex = hexlify

    @staticmethod
    def unhexlify(x):
        if hasattr(x, '__sunhexlify__'):
            return x.__sunhexlify__()
        if isinstance(x, Rope):
            # abstract text as hex digits: documented behaviour on non-hex input is binascii.Error
            ok = core.cur().fresh_bool('hex_ok')
            if not ok:
                raise _binascii.Error('Non-hexadecimal digit found [abstract]')
            raise Unsupported('unhexlify of abstract hex digits')
        return _binascii.unhexlify(x)

    a2b_hex = unhexlify


# ------------------------------------------------------------------ datetime

class SymDate:
    """an opaque datetime value"""
    _is_symdate = True

    def __init__(self, name):
        self.name = name

    def render(self, fmt, ev):
        # any representable date works: use a fixed one per name for witnesses
        base = _datetime.datetime(2021, 3, 4, 5, 6, 7)
        return base.strftime(fmt)

    def __sformat__(self, spec):
        width = builtins.len(_datetime.datetime(2021, 12, 13, 14, 15, 16).strftime(spec))
        return mk('t', [Tok(self, spec, width)])

    def strftime(self, fmt):
        return self.__sformat__(fmt)

    def __repr__(self):
        return 'SymDate(%s)' % self.name


class _DTMeta(type):
    def __instancecheck__(cls, obj):
        return builtins.isinstance(obj, (_datetime.datetime, SymDate))

    def __call__(cls, *a, **k):
        return _datetime.datetime(*a, **k)


class DateTimeLike(metaclass=_DTMeta):
    @staticmethod
    def strptime(text, fmt):
        if isinstance(text, Rope):
            at = rope.whole_atom(text)
            if isinstance(at, Tok) and not at.chain:
                if at.fmt == fmt:
                    return at.d
                raise ValueError('time data does not match format [abstract token, other format]')
            # abstract text: nondeterministic -- ValueError or some opaque datetime (memoised per text slice)
            ex = core.cur()
            memo = ex.__dict__.setdefault('_strptime_memo', [])
            if ex.__dict__.get('_strptime_path') != ex.stats.paths:
                memo.clear()
                ex._strptime_path = ex.stats.paths
            for r, f, res in memo:
                if f == fmt and rope._same_structure(r, text):
                    if res is None:
                        raise ValueError('time data does not match format [abstract]')
                    return res
            ok = ex.fresh_bool('strptime_ok')
            res = SymDate(ex._uniq('parsed_date')) if ok else None
            memo.append((text, fmt, res))
            if res is None:
                raise ValueError('time data does not match format [abstract]')
            return res
        return _datetime.datetime.strptime(text, fmt)

    @staticmethod
    def fromisoformat(text):
        if isinstance(text, Rope):
            raise Unsupported('fromisoformat of abstract text')
        return _datetime.datetime.fromisoformat(text)

    now = staticmethod(_datetime.datetime.now)


class DatetimeStub:
    datetime = DateTimeLike
    date = _datetime.date
    timedelta = _datetime.timedelta


# ------------------------------------------------------------------ re (DE43 only)

class _Match:
    def __init__(self, groups):
        self._g = groups

    def groupdict(self):
        return dict(self._g)


class ReStub:
    @staticmethod
    def match(pattern, text, flags=0):
        if isinstance(text, Rope):
            ex = core.cur()
            ok = ex.fresh_bool('re_match')
            if not ok:
                return None
            names = list(_re.compile(pattern).groupindex)
            out = {}
            for nm in names:
                L = ex.fresh_int('re_%s_len' % nm, 0, 40)
                src = Source(ex._uniq('re_' + nm), 't', L)
                out[nm] = StrippableText([src.whole()])
            ex.note('re', pattern)
            return _Match(out)
        return _re.match(pattern, text, flags)

    compile = _re.compile
    fullmatch = _re.fullmatch
    search = _re.search
    sub = _re.sub


class StrippableText(TRope):
    """opaque text on which rstrip() yields another opaque text"""
    def rstrip(self, chars=None):
        ex = core.cur()
        p = self.pieces[0]
        L = ex.fresh_int('rstrip_len', 0)
        core.assume(L <= p.length())
        r = StrippableText([Opq(p.src, p.lo, p.lo + L, p.chain)])
        r.stripped_of = self
        r.strip_kind = 'right'
        return r

    def strip(self, chars=None):
        r = self.rstrip(chars)
        r.strip_kind = 'both'
        return r

    def lstrip(self, chars=None):
        r = self.rstrip(chars)
        r.strip_kind = 'left'
        return r


# ------------------------------------------------------------------ csv (row layer only; the text layer is the C _csv module)

class CsvOut:
    """stands for a text file that receives CSV: records header and rows instead of rendering text"""
    def __init__(self):
        self.header = None
        self.rows = []

    def write(self, s):
        raise Unsupported('raw text written to a CSV stub file')


class CsvIn:
    def __init__(self, fieldnames, rows):
        self.fieldnames = list(fieldnames)
        self.rows = [dict(r) for r in rows]


class _DictWriter:
    def __init__(self, f, fieldnames, restval='', extrasaction='raise', *a, **kw):
        self.f = f
        self.fieldnames = list(fieldnames)
        self.restval = restval
        self.extrasaction = extrasaction

    def writeheader(self):
        self.f.header = list(self.fieldnames)

    def writerow(self, d):
        if self.extrasaction == 'raise':
            wrong = [k for k in d if k not in self.fieldnames]
            if wrong:
                raise ValueError('dict contains fields not in fieldnames: %r' % wrong)
        self.f.rows.append({k: d.get(k, self.restval) for k in self.fieldnames})

    def writerows(self, rows):
        for d in rows:
            self.writerow(d)


class _DictReader:
    """rows come from the harness; reader options that change cell values are modelled, any other option is refused"""
    def __init__(self, f, *a, **kw):
        self.f = f
        self.fieldnames = f.fieldnames
        self.skipinitialspace = bool(kw.pop('skipinitialspace', False))
        for k in ('dialect', 'restkey', 'restval', 'fieldnames'):
            kw.pop(k, None)
        if kw or a:
            raise Unsupported('csv.DictReader options %r' % (sorted(kw) or a,))

    def _cell(self, v):
        if not self.skipinitialspace:
            return v
        # csv drops the blanks that follow a delimiter: an (unquoted) cell that begins with k blanks loses them
        if isinstance(v, builtins.str):
            return v.lstrip(' ')
        if isinstance(v, TRope):
            n = v.length()
            k = core.cur().choose('leading_blanks', 3)
            if not (k <= n):
                raise core.PathAbort('cell shorter than its leading blanks')
            ps = rope.nonempty_pieces(v)
            if k and not (builtins.len(ps) == 1 and isinstance(ps[0], Opq)):
                raise core.PathAbort('only opaque cells can start with blanks')
            for i in builtins.range(k):
                core.assume(s_eq(ps[0].src.peek(ps[0].lo + i, ps[0].chain), 32))
            return v[k:] if k else v
        return v

    def __iter__(self):
        return iter([{c: self._cell(x) for c, x in r.items()} for r in self.f.rows])


class CsvStub:
    DictWriter = _DictWriter
    DictReader = _DictReader


class VirtualFS:
    """open() inside cardutil's command line modules: named RopeFiles (binary) / CSV stubs (text); no real file is touched"""
    def __init__(self):
        self.files = {}
        self.opened = []

    def reset(self):
        self.files = {}
        self.opened = []

    def open(self, name, mode='r', *a, **kw):
        enc = kw.get('encoding', a[1] if len(a) > 1 else None)
        self.opened.append({'name': name, 'mode': mode, 'encoding': enc, 'newline': kw.get('newline')})
        if 'b' in mode:
            if 'w' in mode:
                f = RopeFile()
                self.files[name] = f
                return f
            if name not in self.files:
                raise FileNotFoundError(name)
            src = self.files[name]
            return RopeFile(src.getvalue() if isinstance(src, RopeFile) else src)
        if 'w' in mode:
            f = CsvOut()
            f.__enter__ = lambda: f
            self.files[name] = f
            return _Ctx(f)
        if name not in self.files:
            raise FileNotFoundError(name)
        return _Ctx(self.files[name])


class _Ctx:
    def __init__(self, obj):
        self.obj = obj

    def __enter__(self):
        return self.obj

    def __exit__(self, *a):
        return False


VFS = VirtualFS()


def sh_range(*a):
    """range() with a symbolic bound: the feasible values are enumerated (forks; exact)"""
    if any(isinstance(x, SInt) for x in a):
        ex = core.cur()
        a = [ex.concretize(x, limit=64) if isinstance(x, SInt) else x for x in a]
    return builtins.range(*a)


def sh_min(*a, **k):
    if len(a) == 2 and not k and any(isinstance(x, SInt) for x in a):
        return a[0] if (a[0] <= a[1]) else a[1]
    return builtins.min(*a, **k)


def sh_max(*a, **k):
    if len(a) == 2 and not k and any(isinstance(x, SInt) for x in a):
        return a[0] if (a[0] >= a[1]) else a[1]
    return builtins.max(*a, **k)


def sh_abs(x):
    if isinstance(x, SInt):
        return x if (x >= 0) else -x
    return builtins.abs(x)


def sh_bool(x=False):
    return True if x else False


SHADOWS = {
    'len': sh_len,
    'str': StrLike,
    'int': IntLike,
    'format': sh_format,
    'repr': sh_repr,
    'bytes': BytesLike,
    '__vmul__': sh_mul,
    '__vgetitem__': sh_getitem,
    '__fuel__': core.FUEL,
    'open': VFS.open,
    'range': sh_range,
    'bytearray': sh_bytearray,
    'min': sh_min,
    'max': sh_max,
    'abs': sh_abs,
}
