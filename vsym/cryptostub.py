"""vsym.cryptostub -- `cryptography` is OpenSSL behind FFI and cannot be executed symbolically.
Cipher(TripleDES(k)|AES(k), ECB) is modelled as an uninterpreted function E_alg(k, block) / D_alg(k, block) on bit-vectors with
the library's length checks and the axiom D(k, E(k, x)) = x (instantiated on demand)."""
import z3

from . import core
from .symstr import SymBytes, HexInt


class _Alg:
    def __init__(self, name, key, block_bytes):
        self.name = name
        self.key = SymBytes.of(key)
        self.block = block_bytes
        self.kbits = 8 * len(self.key)


def TripleDES(key):
    n = len(key)
    if n not in (8, 16, 24):
        raise ValueError('Invalid key size (%d) for 3DES.' % (8 * n))
    # TDEA keying options: a 16-byte key K1|K2 means K1|K2|K1, an 8-byte key K means K|K|K (one function on 192-bit keys)
    key = SymBytes.of(key)
    if n == 16:
        key = key + key[0:8]
    elif n == 8:
        key = key + key + key
    return _Alg('3DES', key, 8)


def AES(key):
    n = len(key)
    if n not in (16, 24, 32):
        raise ValueError('Invalid key size (%d) for AES.' % (8 * n))
    return _Alg('AES', key, 16)


class AlgorithmsStub:
    TripleDES = staticmethod(TripleDES)
    AES = staticmethod(AES)


class ModesStub:
    @staticmethod
    def ECB():
        return 'ECB'


def _fn(alg, direction):
    bb = 8 * alg.block
    return z3.Function('%s_%s_%d' % (direction, alg.name, alg.kbits), z3.BitVecSort(alg.kbits), z3.BitVecSort(bb), z3.BitVecSort(bb))


def _log():
    ex = core.cur()
    if ex.__dict__.get('_cipher_path') != ex.stats.paths:
        ex._cipher_path = ex.stats.paths
        ex._cipher_log = []
    return ex._cipher_log


def apply_cipher(alg, direction, block_bv):
    """E or D on one block (bit-vector terms); records the application and instantiates the inverse axiom"""
    k = alg.key.bv()
    f = _fn(alg, direction)
    out = f(k, block_bv)
    ex = core.cur()
    log = _log()
    other = 'D' if direction == 'E' else 'E'
    g = _fn(alg, other)
    # D(k, E(k, x)) = x  and  E(k, D(k, y)) = y  for this application
    ex.assume(g(k, out) == block_bv)
    log.append((alg.name, alg.kbits, direction, k, block_bv, out))
    return out


class AlreadyFinalized(Exception):
    """cryptography.exceptions.AlreadyFinalized (not a ValueError)"""


class _Op:
    def __init__(self, alg, direction):
        self.alg = alg
        self.dir = direction
        self.left = None
        self.buf = None          # a context keeps the bytes of an incomplete block and continues from them at the next update()
        self.done = False

    def update(self, data):
        if self.done:
            raise AlreadyFinalized('Context was already finalized.')
        data = SymBytes.of(data)
        if self.buf is not None and len(self.buf):
            data = self.buf + data
        n = len(data)
        bs = self.alg.block
        whole = (n // bs) * bs
        out = []
        for i in range(0, whole, bs):
            blk = data[i:i + bs]
            res = apply_cipher(self.alg, self.dir, blk.bv())
            out += HexInt.from_bv(res).nibs
        self.left = n - whole
        self.buf = data[whole:n] if n > whole else None
        return SymBytes(out)

    def finalize(self):
        if self.done:
            raise AlreadyFinalized('Context was already finalized.')
        self.done = True
        if self.left:
            raise ValueError('The length of the provided data is not a multiple of the block length.')
        return b''


class Cipher:
    def __init__(self, algorithm, mode, backend=None):
        if not isinstance(algorithm, _Alg):
            raise TypeError('Expected interface of CipherAlgorithm.')
        self.alg = algorithm

    def encryptor(self):
        return _Op(self.alg, 'E')

    def decryptor(self):
        return _Op(self.alg, 'D')


class SecretsStub:
    """secrets.randbits: a fresh value per call; calls are counted"""
    def __init__(self):
        self.calls = 0

    def randbits(self, k):
        self.calls += 1
        ex = core.cur()
        v = ex.fresh_bv('randbits%d' % k, k)
        return HexInt.from_bv(v)


def reference_E(alg_name, key_bytes, block_bv):
    """the same uninterpreted function, for oracles"""
    kb = SymBytes.of(key_bytes)
    alg = TripleDES(kb) if alg_name == '3DES' else _Alg(alg_name, kb, 16)
    return _fn(alg, 'E')(alg.key.bv(), block_bv)
