"""vsym.runner -- obligations, parallel execution, replay, known findings, evidence, exit codes."""
import concurrent.futures as cf
import importlib
import json
import multiprocessing as mp
import os
import subprocess
import sys
import time
import traceback

ROOT = os.path.dirname(os.path.dirname(os.path.abspath(__file__)))
PY = os.path.join(ROOT, '.venv', 'bin', 'python')


class Ob:
    """one proof obligation: a harness function explored over all its feasible paths"""
    def __init__(self, name, fn, budget_s=120, bounds='', functions=(), outside='', stubs=(), max_paths=500000,
                 validate=6, expect_paths_min=1, optimize=0, debug_log=False):
        self.name = name
        self.debug_log = debug_log      # True: the `cardutil` loggers are at DEBUG while the obligation is explored and replayed
        self.optimize = optimize        # 1: the cardutil modules are compiled as under python -O (asserts removed); replays run under python -O
        self.fn = fn
        self.budget_s = budget_s
        self.bounds = bounds
        self.functions = functions      # callable returning the list of real functions executed (for hashing)
        self.outside = outside
        self.stubs = stubs
        self.max_paths = max_paths
        self.validate = validate        # how many ok-paths to replay against the real build
        self.expect_paths_min = expect_paths_min


def jsonable(x):
    if isinstance(x, (bytes, bytearray)):
        return {'hex': bytes(x).hex()}
    if isinstance(x, dict):
        return {str(k): jsonable(v) for k, v in x.items()}
    if isinstance(x, (list, tuple)):
        return [jsonable(v) for v in x]
    if isinstance(x, (str, int, float, bool)) or x is None:
        return x
    return repr(x)


def unjson(x):
    if isinstance(x, dict):
        if set(x) == {'hex'}:
            return bytes.fromhex(x['hex'])
        return {k: unjson(v) for k, v in x.items()}
    if isinstance(x, list):
        return [unjson(v) for v in x]
    return x


OPT_SUFFIX = '/python-O'
DBG_SUFFIX = '/debug-logging'


def all_obligations(mod, tier):
    """the obligations of a harness module plus, for the names it lists in PYTHON_O, a twin explored with the cardutil modules compiled
    as `python -O` compiles them (assert statements removed, __debug__ False)"""
    obs = list(mod.obligations(tier))
    want = getattr(mod, 'PYTHON_O', ())
    twins = []
    for o in obs:
        if o.optimize or o.name.endswith(OPT_SUFFIX):
            continue
        if any((w == o.name) or (w.endswith('*') and o.name.startswith(w[:-1])) for w in want):
            t = Ob(o.name + OPT_SUFFIX, o.fn, o.budget_s, o.bounds + ' [under python -O]', o.functions, o.outside, o.stubs, o.max_paths,
                   o.validate, o.expect_paths_min, optimize=1)
            twins.append(t)
    # ... and, for the names in DEBUG_LOG, a twin explored with debug logging switched on (the command-line tools' --debug): code that is
    # guarded by LOGGER.isEnabledFor(DEBUG) runs, and so do the arguments of logging calls
    for o in obs:
        if o.optimize or o.debug_log or o.name.endswith(OPT_SUFFIX) or o.name.endswith(DBG_SUFFIX):
            continue
        if any((w == o.name) or (w.endswith('*') and o.name.startswith(w[:-1])) for w in getattr(mod, 'DEBUG_LOG', ())):
            twins.append(Ob(o.name + DBG_SUFFIX, o.fn, o.budget_s, o.bounds + ' [debug logging on]', o.functions, o.outside, o.stubs, o.max_paths,
                            o.validate, o.expect_paths_min, debug_log=True))
    return obs + twins


def _mark_mode(x, mode='-O'):
    if isinstance(x, dict) and 'kind' in x and 'args' in x:
        x.setdefault('mode', mode)
    return x


class _Null(__import__('logging').Handler):
    def emit(self, record):
        pass


def _debug_logging(on):
    import logging
    lg = logging.getLogger('cardutil')
    if on:
        if not any(isinstance(h, _Null) for h in lg.handlers):
            lg.addHandler(_Null())
        lg.setLevel(logging.DEBUG)
        lg.propagate = False
    else:
        lg.setLevel(logging.NOTSET)
        lg.propagate = True


def _run_one(prop, tier, name, seed):
    """worker: run one obligation in this process"""
    t0 = time.time()
    out = {'name': name, 'verdict': 'inconclusive', 'reason': None, 'paths': 0, 'paths_ok': 0, 'queries': 0,
           'solver_s': 0.0, 'unknowns': 0, 'requires': 0, 'violations': [], 'oks': [], 'functions': [],
           'bounds': '', 'outside': '', 'stubs': []}
    try:
        sys.path.insert(0, ROOT)
        from vsym import core, loader
        mod = importlib.import_module('harness.' + prop.lower())
        obs = {o.name: o for o in all_obligations(mod, tier)}
        ob = obs[name]
        from harness import common as _common
        _common.DEFAULT_OPT[0] = 1 if ob.optimize else 0
        _debug_logging(ob.debug_log)
        out['bounds'] = ob.bounds
        out['outside'] = ob.outside
        out['stubs'] = list(ob.stubs)
        os.environ.setdefault('VSYM_CROSSCHECK_EVERY', '25' if tier == 'quick' else '5')
        os.environ.setdefault('VSYM_CROSSCHECK_CAP', '300' if tier == 'quick' else '5000')
        ex = core.Explorer(max_paths=ob.max_paths, deadline_s=ob.budget_s, stop_on_violation=False)
        ex.max_violations = 40
        # watchdogs: the path explorer checks its deadline between paths only.  A soft alarm ends a path that does not come back (an
        # endless loop the fuel does not see, native code that polls for signals such as the regular expression engine); a hard one
        # ends the worker if even that does not help, so that a check always terminates.
        import faulthandler
        import signal

        def _soft(signum, frame):
            raise core.Inconclusive('a single path ran past the time budget of the obligation (%ds + 60s)' % ob.budget_s)
        try:
            signal.signal(signal.SIGALRM, _soft)
            signal.alarm(int(ob.budget_s) + 60)
            faulthandler.dump_traceback_later(ob.budget_s + 300, exit=True)
        except (ValueError, OSError):
            pass
        try:
            ex.explore(ob.fn)
        except loader.LoaderReject as e:
            out['reason'] = 'loader: %s' % e
            out['wall_s'] = time.time() - t0
            return out
        except core.Inconclusive as e:
            ex.inconclusive = str(e)
        finally:
            try:
                signal.alarm(0)
                faulthandler.cancel_dump_traceback_later()
            except (ValueError, OSError):
                pass
        st = ex.stats
        out.update(paths=st.paths, paths_ok=st.paths_ok, queries=st.queries, solver_s=round(st.solver_s, 3),
                   unknowns=st.unknowns, max_depth=st.max_depth, unsat_answers=getattr(st, 'unsat_answers', 0),
                   crosschecked=getattr(st, 'crosschecked', 0), crosscheck_agree=getattr(st, 'crosscheck_agree', 0),
                   crosscheck_undecided=getattr(st, 'crosscheck_undecided', 0), crosscheck_disagree=getattr(st, 'crosscheck_disagree', 0),
                   crosscheck_s=round(getattr(st, 'crosscheck_s', 0.0), 2), fresh_solver_queries=getattr(st, 'fresh_solver_queries', 0))
        try:
            out['functions'] = loader.describe(*ob.functions()) if callable(ob.functions) else []
        except Exception as e:        # pragma: no cover
            out['functions'] = [{'name': 'describe failed: %s' % e}]
        nreq = 0
        for kind, info in ex.results:
            if kind == 'ok':
                if isinstance(info, dict):
                    nreq += int(info.get('checked', 1))
                    if len(out['oks']) < max(ob.validate, 3):
                        out['oks'].append(jsonable(info))
                else:
                    nreq += 1
                    if len(out['oks']) < 3:
                        out['oks'].append(jsonable(info))
            elif kind == 'violation':
                d = info.detail or {}
                out['violations'].append({'msg': info.msg, 'key': d.get('key'), 'replay': jsonable(d.get('replay')),
                                          'detail': jsonable({k: v for k, v in d.items() if k not in ('replay', 'key')})})
            elif kind == 'candidate':
                d = info.detail or {}
                out['violations'].append({'msg': info.msg, 'key': d.get('key'), 'replay': jsonable(d.get('replay')), 'candidate': True, 'detail': {}})
            elif kind == 'fuel':
                out['violations'].append({'msg': 'loop budget exhausted outside a harness guard', 'key': None, 'replay': None})
        out['requires'] = nreq
        if ob.optimize or ob.debug_log:
            mode = '-O' if ob.optimize else 'debug-logging'
            for info in out['oks']:
                if isinstance(info, dict):
                    _mark_mode(info.get('replay'), mode)
            for v in out['violations']:
                _mark_mode(v.get('replay'), mode)
        if ex.inconclusive:
            out['inconclusive_reason'] = ex.inconclusive
        if out['violations']:
            out['verdict'] = 'violated'
        elif ex.inconclusive:
            out['reason'] = ex.inconclusive
        elif not ex.exhausted:
            out['reason'] = 'search not exhausted'
        elif st.paths_ok < ob.expect_paths_min:
            out['reason'] = 'vacuous: only %d feasible path(s) reached the end' % st.paths_ok
        else:
            out['verdict'] = 'holds'
    except BaseException as e:       # machinery crash
        out['verdict'] = 'crash'
        out['reason'] = '%s: %s' % (type(e).__name__, e)
        out['trace'] = traceback.format_exc()
    out['wall_s'] = round(time.time() - t0, 3)
    return out


def _selfcheck_task(seed):
    sys.path.insert(0, ROOT)
    from vsym import selfcheck
    try:
        return {'ok': True, 'counts': selfcheck.run(seed)}
    except BaseException as e:
        return {'ok': False, 'error': '%s: %s' % (type(e).__name__, e)}


def run_replays(specs, timeout=120):
    """replay specs against the unmodified /repo build in a plain interpreter; returns list of result dicts"""
    if not specs:
        return []
    results = []
    # group by interpreter mode
    for mode in sorted({s.get('mode', 'normal') for s in specs}):
        idx = [i for i, s in enumerate(specs) if s.get('mode', 'normal') == mode]
        payload = json.dumps([specs[i] for i in idx])
        cmd = [PY] + (['-O'] if mode == '-O' else []) + [os.path.join(ROOT, 'vsym', 'replay_main.py')] + \
            (['--debug-logging'] if mode == 'debug-logging' else []) + ['--batch', '-']
        res = None
        err = ''
        for attempt in (1, 2):          # a loaded machine must not turn a violation into "did not reproduce": retry once, generously
            try:
                p = subprocess.run(cmd, input=payload, capture_output=True, text=True, timeout=timeout * attempt + 20 * len(idx), cwd=ROOT,
                                   env=dict(os.environ, PYTHONPATH=ROOT))
                res = json.loads(p.stdout.strip().splitlines()[-1]) if p.stdout.strip() else None
                err = p.stderr[-500:]
            except subprocess.TimeoutExpired:
                err = 'timeout'
            except (ValueError, IndexError):
                err = 'unparsable replay output'
            if res is not None:
                break
        if res is None:
            res = [{'violated': None, 'observed': 'replay process failed: %s' % err, 'key': None}] * len(idx)
        for i, r in zip(idx, res):
            results.append((i, r))
    results.sort()
    return [r for _, r in results]


def load_known():
    path = os.path.join(ROOT, 'known_findings.json')
    if not os.path.exists(path):
        return []
    return json.load(open(path)).get('findings', [])


def check(prop, tier, seed=0, only=None, jobs=None):
    t0 = time.time()
    sys.path.insert(0, ROOT)
    mod = importlib.import_module('harness.' + prop.lower())
    obs = all_obligations(mod, tier)
    if only:
        obs = [o for o in obs if any(s in o.name for s in only)]
    names = [o.name for o in obs]
    jobs = jobs or min(16, max(1, len(names)))
    results = []
    ctx = mp.get_context('spawn')
    with cf.ProcessPoolExecutor(max_workers=jobs, mp_context=ctx) as pool:
        selff = pool.submit(_selfcheck_task, seed)
        futs = {pool.submit(_run_one, prop, tier, n, seed): n for n in names}
        budget = {o.name: o.budget_s for o in obs}
        for f in cf.as_completed(futs):
            n = futs[f]
            try:
                results.append(f.result())
            except Exception as e:
                results.append({'name': n, 'verdict': 'crash', 'reason': 'worker died: %s' % e, 'paths': 0, 'paths_ok': 0,
                                'queries': 0, 'solver_s': 0, 'unknowns': 0, 'requires': 0, 'violations': [], 'oks': [],
                                'functions': [], 'wall_s': 0})
        try:
            selfres = selff.result()
        except Exception as e:
            selfres = {'ok': False, 'error': 'selfcheck worker died: %s' % e}
    order = {n: i for i, n in enumerate(names)}
    results.sort(key=lambda r: order[r['name']])

    known = [k for k in load_known() if k.get('property') == prop and k.get('status') == 'known']
    known_keys = {k['key']: k for k in known}
    lines = []
    exit_code = 0
    n_viol = 0
    validated = 0
    replays_dir = os.path.join(ROOT, 'replays')
    os.makedirs(replays_dir, exist_ok=True)

    # 1. validate a sample of ok-paths against the real build (model validation)
    ok_specs = []
    for r in results:
        for info in r.get('oks', []):
            if isinstance(info, dict) and info.get('replay'):
                sp = dict(info['replay'])
                sp['property'] = prop
                ok_specs.append((r, sp))
    ok_res = run_replays([s for _, s in ok_specs])
    for (r, sp), rr in zip(ok_specs, ok_res):
        if rr.get('violated') is None:
            r['verdict'] = 'inconclusive' if r['verdict'] == 'holds' else r['verdict']
            r['reason'] = 'validation replay failed: %s' % rr.get('observed')
        elif rr.get('violated'):
            # the abstraction said fine, the real code misbehaves on the concretised input
            r.setdefault('violations', []).append({'msg': 'concretised ok-path violates on the real build: %s' % rr.get('observed'),
                                                   'key': rr.get('key'), 'replay': sp, 'confirmed': rr})
            r['verdict'] = 'violated'
        else:
            validated += 1

    # 2. replay violations
    seen_keys = set()
    for r in results:
        todo = [v for v in r.get('violations', []) if 'confirmed' not in v]
        specs = []
        for v in todo:
            sp = v.get('replay')
            if sp:
                sp = dict(sp)
                sp['property'] = prop
                specs.append(sp)
        # replay at most 12 per obligation, preferring distinct preliminary keys
        chosen = []
        per_key = {}
        # simplest witnesses first (fewest bytes): they are the least likely to rest on over-approximated reads
        for v in sorted(todo, key=lambda v: len(json.dumps(v.get('replay'), default=str))):
            if not v.get('replay'):
                continue
            k = (bool(v.get('candidate')), v.get('key'))
            ncls = sum(1 for c in chosen if bool(c.get('candidate')) == k[0])
            # candidates of the concretisation fallback (at most 60 per obligation, five models per unsupported path) are all replayed
            if per_key.get(k, 0) < (60 if k[0] else 5) and ncls < (60 if k[0] else 20):
                per_key[k] = per_key.get(k, 0) + 1
                chosen.append(v)
        rr = run_replays([dict(v['replay'], property=prop) for v in chosen])
        for v, res in zip(chosen, rr):
            v['confirmed'] = res
        confirmed_any = False
        unconfirmed = 0
        for v in r.get('violations', []):
            res = v.get('confirmed')
            if res is None:
                if not v.get('replay'):
                    unconfirmed += 1
                continue
            if res.get('violated'):
                validated += 1
                confirmed_any = True
                key = res.get('key') or v.get('key') or 'unclassified'
                if key in known_keys:
                    if key not in seen_keys:
                        lines.append('KNOWN-FINDING: property=%s %s [%s]' % (prop, known_keys[key]['what'], key))
                    seen_keys.add(key)
                    v['known'] = True
                else:
                    n_viol += 1
                    if ('V', key) not in seen_keys:
                        seen_keys.add(('V', key))
                        path = os.path.join(replays_dir, '%s-%s-%d.json' % (prop, r['name'].replace('/', '_'), n_viol))
                        sp = dict(v['replay'], property=prop, obligation=r['name'], message=v['msg'], key=key,
                                  observed_in_replay=res.get('observed'))
                        json.dump(sp, open(path, 'w'), indent=1)
                        lines.append('VIOLATION property=%s replay=%s' % (prop, os.path.relpath(path, ROOT)))
                        lines.append('  obligation=%s key=%s: %s | observed: %s' % (r['name'], key, v['msg'], res.get('observed')))
                    exit_code = 1
            else:
                unconfirmed += 1
        if r['verdict'] == 'violated':
            all_known = all(v.get('known') for v in r['violations'] if (v.get('confirmed') or {}).get('violated'))
            if not confirmed_any:
                r['verdict'] = 'inconclusive'
                r['reason'] = 'witness did not reproduce on the real build (%d)' % unconfirmed
                if r.get('inconclusive_reason'):
                    r['reason'] = '%s; %s' % (r['inconclusive_reason'], r['reason'])
            elif all_known and unconfirmed == 0:
                r['verdict'] = 'holds-except-known'
            elif all_known:
                r['verdict'] = 'inconclusive'
                r['reason'] = 'known finding reproduced; %d further witnesses did not reproduce' % unconfirmed

    if not selfres.get('ok'):
        lines.append('HARNESS-ERROR property=%s model self-validation failed: %s' % (prop, selfres.get('error')))
        exit_code = exit_code or 2
    crashed = [r for r in results if r['verdict'] == 'crash']
    for r in results:
        if r['verdict'] == 'inconclusive':
            lines.append('INCONCLUSIVE property=%s obligation=%s reason=%s' % (prop, r['name'], r.get('reason')))
        if r['verdict'] == 'crash':
            lines.append('HARNESS-ERROR property=%s obligation=%s %s' % (prop, r['name'], r.get('reason')))
    if crashed and exit_code == 0:
        exit_code = 2

    write_evidence(prop, tier, seed, results, validated, n_viol, time.time() - t0, mod, selfres)
    for ln in lines:
        print(ln)
    nh = sum(1 for r in results if r['verdict'] in ('holds', 'holds-except-known'))
    print('%s tier=%s obligations=%d discharged=%d paths=%d queries=%d solver_s=%.1f validated_on_impl=%d wall=%.1fs'
          % (prop, tier, len(results), nh, sum(r['paths'] for r in results), sum(r['queries'] for r in results),
             sum(r['solver_s'] for r in results), validated, time.time() - t0))
    if os.environ.get('VSYM_VERBOSE'):
        for r in results:
            print('  %-40s %-18s paths=%-5d ok=%-5d q=%-6d %.1fs %s' % (r['name'], r['verdict'], r['paths'], r['paths_ok'],
                                                                     r['queries'], r.get('wall_s', 0), r.get('reason') or ''))
            if r['verdict'] == 'crash':
                print(r.get('trace'))
            for v in r.get('violations', [])[:5]:
                print('      violating path: %s key=%s confirmed=%s' % (v.get('msg'), v.get('key'), (v.get('confirmed') or {}).get('observed')))
                if os.environ.get('VSYM_VERBOSE') == '2':
                    print('         spec=%s\n         res=%s' % (json.dumps(v.get('replay'), default=str)[:600], v.get('confirmed')))
    return exit_code


def write_evidence(prop, tier, seed, results, validated, n_viol, wall, mod, selfres=None):
    if os.path.realpath(os.environ.get('REPO', '/repo')) != '/repo':
        return          # a scratch copy is being analysed (bin/mutant, bin/eval-seed): evidence describes /repo only
    os.makedirs(os.path.join(ROOT, 'evidence'), exist_ok=True)
    nh = sum(1 for r in results if r['verdict'] in ('holds', 'holds-except-known'))
    samples = []
    for r in results:
        for info in r.get('oks', [])[:2]:
            s = info.get('sample') if isinstance(info, dict) and 'sample' in info else info
            samples.append({'obligation': r['name'], 'path_model': s})
        for v in r.get('violations', [])[:2]:
            samples.append({'obligation': r['name'], 'violating_path': v.get('msg'), 'key': v.get('key'),
                            'replayed': (v.get('confirmed') or {}).get('violated')})
    samples = samples[:40] or [{'note': 'no path completed'}]
    funcs = {}
    for r in results:
        for f in r.get('functions', []):
            funcs[f.get('name')] = f
    ev = {
        'property_id': prop,
        'tier': tier,
        'seed': int(seed),
        'level': 'model_checking',
        'coverage': {
            'states': max(1, sum(r['paths_ok'] for r in results)),
            'transitions': max(1, sum(r['queries'] for r in results)),
            'traces_validated_against_impl': validated,
            'samples': samples,
            'obligations': len(results),
            'discharged': nh,
            'exhaustive': nh == len(results),
            'explanation': 'states = feasible symbolic paths executed to the end through the real cardutil functions; '
                           'transitions = SMT queries discharged (z3); every branch decision of every path is backed by a query; '
                           'an obligation is discharged only when the path search was exhausted with no unknown and no timeout',
            'solver_seconds': round(sum(r['solver_s'] for r in results), 2),
            'unknowns': sum(r['unknowns'] for r in results),
            'functions_encoded': sorted(funcs.values(), key=lambda f: f.get('name') or ''),
            'per_obligation': [{'name': r['name'], 'verdict': r['verdict'], 'reason': r.get('reason'), 'paths': r['paths'],
                                'feasible_paths_completed': r['paths_ok'], 'queries': r['queries'], 'solver_s': r['solver_s'],
                                'wall_s': r.get('wall_s'), 'bounds': r.get('bounds'), 'outside_bounds': r.get('outside'),
                                'violations': len(r.get('violations', []))} for r in results],
            'solver': 'z3 %s (python API, incremental, model-guided branching)' % _z3_version(),
            'model_self_validation': selfres,
            'second_solver': {'solver': 'cvc5 (python API) re-decides a sample of the unsat answers of z3 (every path pruning and every discharged requirement is an unsat answer)',
                              'unsat_answers': sum(r.get('unsat_answers', 0) for r in results), 'rechecked': sum(r.get('crosschecked', 0) for r in results),
                              'agree': sum(r.get('crosscheck_agree', 0) for r in results), 'undecided_by_cvc5': sum(r.get('crosscheck_undecided', 0) for r in results),
                              'disagree': sum(r.get('crosscheck_disagree', 0) for r in results), 'seconds': round(sum(r.get('crosscheck_s', 0) for r in results), 1)},
            'trusted_base': ['CPython 3.12', 'z3', 'vsym.core path bookkeeping', 'vsym.models shadows', 'vsym.rope abstraction'],
        },
        'assumptions': sorted({s for r in results for s in r.get('stubs', [])} | set(getattr(mod, 'ASSUMPTIONS', []))),
        'wall_s': round(wall, 2),
        'violations': n_viol,
    }
    path = os.path.join(ROOT, 'evidence', '%s.json' % prop)
    with open(path, 'w') as f:
        json.dump(ev, f, indent=1)


def _z3_version():
    try:
        import z3
        return z3.get_version_string()
    except Exception:
        return '?'
