from . import ref


def _cfg(cfg):
    if isinstance(cfg, dict):
        return cfg
    from . import packaged
    return packaged.bit_config()


def replay_roundtrip(msg, enc, hexbm, cfg):
    from cardutil import iso8583
    cfgs = _cfg(cfg)
    m = ref.concrete_msg(msg, cfgs)
    try:
        b = iso8583.dumps(dict(m), encoding=enc, hex_bitmap=hexbm, iso_config=cfgs if isinstance(cfg, dict) else None)
    except Exception as e:
        return True, 'dumps raised %s: %s' % (type(e).__name__, e), 'C01/encode-exception'
    try:
        d = iso8583.loads(b, encoding=enc, hex_bitmap=hexbm, iso_config=cfgs if isinstance(cfg, dict) else None)
    except Exception as e:
        return True, 'loads(dumps(m)) raised %s: %s' % (type(e).__name__, e), 'C01/decode-exception'
    for k, v in m.items():
        if k not in d:
            return True, '%s lost' % k, 'C01/lost'
        if d[k] != v or type(d[k]) is not type(v):
            return True, '%s came back as %r' % (k, d[k] if not isinstance(d[k], (str, bytes)) else d[k][:30]), 'C01/value'
    allowed = set(m)
    for k in m:
        if k.startswith('DE') and cfgs.get(k[2:], {}).get('field_processor') in ('PDS', 'ICC', 'DE43'):
            allowed |= {x for x in d if x.startswith(('PDS', 'TAG', 'ICC_DATA', 'DE43_'))}
    if any(k.startswith('PDS') for k in m):
        allowed |= {'DE%d' % c for c in ref.PDS_CARRIERS}
    extra = [k for k in d if k not in allowed]
    if extra:
        return True, 'extra keys %s' % extra, 'C01/extra'
    return False, 'ok', None


def replay_reconfig(msgs, cfgs, enc, hexbm):
    """one configuration dict object, edited in place between the uses"""
    import copy
    cfg = {}
    res = (False, 'ok', None)
    for m, c in zip(msgs, cfgs):
        cfg.clear()
        cfg.update(copy.deepcopy(c))
        res = replay_roundtrip(m, enc, hexbm, cfg)
        if res[0]:
            return res
    return res
