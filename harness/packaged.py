"""the packaged configuration of cardutil as documented at the pinned commit (cardutil/config.py), frozen.

The properties speak about "the packaged Mastercard field configuration".  The harnesses take their *expectations* (which element is
fixed or variable, how wide, which python type, which processor; the parameter table layouts; the maximum record length; the CSV column
list) from this frozen copy, while the code under test runs with whatever cardutil/config.py contains in the tree that is checked - so a
change to one entry of the packaged configuration shows as a difference in behaviour instead of silently moving the expectation with it.
Regenerate with  PYTHONPATH=/repo /venv/bin/python -c "import json; from cardutil.config import config; print(json.dumps(config, indent=1))"
only when the documented configuration itself is meant to change."""
import copy
import json
import os

_PATH = os.path.join(os.path.dirname(os.path.abspath(__file__)), 'packaged_config.json')
PACKAGED = json.load(open(_PATH))


def bit_config():
    return PACKAGED['bit_config']


def bit_config_copy():
    return copy.deepcopy(PACKAGED['bit_config'])


def param_tables():
    return PACKAGED['mci_parameter_tables']


def output_columns():
    return PACKAGED['output_data_elements']


MAX_VBS_RECORD_LENGTH = PACKAGED.get('MAX_VBS_RECORD_LENGTH', 6000)
