"""C04 -- 1014 blocking: output is well-formed and data-exact for every write sequence"""
from vsym.runner import Ob
from .common import *
from vsym.core import choose

PROPERTY = 'C04'
PYTHON_O = ['step/write-from-any-state', 'fin/close-from-any-state', 'fin/seek-from-any-state']      # obligations that are also explored with the modules compiled as under python -O
ASSUMPTIONS = [
    'file object = RopeFile (io.BytesIO semantics: positional write, append at end)',
    'payload content is opaque: verdicts hold for every byte content (data independence; the blocker never inspects content)',
]


def _funcs():
    m = M().mciipm
    return [m.Block1014.write, m.Block1014.finalise, m.Block1014.seek, m.Block1014.close, m.Block1014.__init__, m.block_1014]


def _state(r):
    """a blocker in the arbitrary reachable state 'r payload bytes still free in the current block':
    the bytes already in the current block are an opaque source of length 1012-r (whole earlier blocks are irrelevant
    to the blocker, which only keeps remaining_chars).  r = 0 is the reachable 'payload complete, trailer pending' state."""
    m = M().mciipm
    f = RopeFile()
    pre = Source('already', 'b', 1012 - r)
    f.write(pre.rope())
    blk = m.Block1014(f)
    blk.remaining_chars = r
    return f, blk, pre


def _pre(r):
    """one write from a fresh blocker that reaches state r (r = 0 needs a write ending exactly on a payload boundary)"""
    return 1012 - r if r else 2024


def step(nmax, maxblocks):
    def h():
        core.FUEL.set(maxblocks + 3)
        r = sym_int('r', 0, 1012)
        n = sym_int('n', 0, nmax)
        f, blk, pre = _state(r)
        d = Source('data', 'b', n)
        def rp():
            rv = ev(r)
            first = concretize(pre.rope(), ev) if rv else None       # state r = 0 is reached by a write ending on a block boundary
            return {'kind': 'writes', 'args': {'lengths': [_pre(rv), ev(n)], 'end': None,
                                               'data': [first, concretize(d.rope(), ev) if ev(n) else b'']}}
        core.set_fallback(rp, 'C04/concretised')
        try:
            blk.write(d.rope() if not isinstance(n, int) or n else b'')
        except core.OutOfFuel:
            fail('write does not terminate', key='C04/hang', replay=rp)
        V = f.getvalue()
        D = cat('b', pre.rope(), d.rope())
        check_blocked(V, D, False, maxblocks, 'after write', key='C04/layout', replay=rp)
        r2 = blk.remaining_chars
        require(s_and(r2 >= 0, r2 <= 1012), 'remaining_chars leaves 0..1012', key='C04/state', replay=rp)
        require(s_eq(rlen(V) % 1014, 1012 - r2), 'remaining_chars does not match the file position', key='C04/state', replay=rp)
        # whatever else the blocker remembers between calls must not matter: a small further write and the finalisation complete the file
        def rp2():
            a = rp()
            a['args']['lengths'] = a['args']['lengths'] + [5]
            a['args']['data'] = a['args']['data'] + [b'tail.']
            a['args']['end'] = 'finalise'
            return a
        core.FUEL.set(maxblocks + 3)
        blk.write(b'tail.')
        blk.finalise()
        check_blocked(f.getvalue(), cat('b', D, b'tail.'), True, maxblocks + 1, 'after a further write and finalise', key='C04/layout', replay=rp2)
        return {'sample': {'r': ev(r), 'n': ev(n), 'size': ev(rlen(V)), 'r_after': ev(r2)}, 'replay': rp()}
    return h


def fin(how):
    def h():
        r = sym_int('r', 0, 1012)
        f, blk, pre = _state(r)
        rp = {'kind': 'writes', 'args': {'lengths': [_pre(ev(r))], 'end': how}}
        core.set_fallback(rp, 'C04/concretised')
        if how == 'finalise':
            blk.finalise()
        elif how == 'seek':
            blk.seek(0)
            require(same_int(f.pos, 0), 'seek(0) must rewind the wrapped file', key='C04/seek', replay=rp)
        else:
            blk.close()
            require(f.closed, 'close must close the wrapped file', key='C04/close', replay=rp)
        check_blocked(f.getvalue(), pre.rope(), True, 2, 'after ' + how, key='C04/final', replay=rp)
        require(s_eq(blk.remaining_chars, 1012), 'finalise must start a new block', key='C04/state', replay=rp)
        return {'sample': {'r': ev(r), 'size': ev(f.size())}, 'replay': rp}
    return h


def history(bounds, maxblocks):
    def h():
        core.FUEL.set(maxblocks + 3)
        m = M().mciipm
        f = RopeFile()
        blk = m.Block1014(f)
        ns = [sym_int('n%d' % i, 0, b) for i, b in enumerate(bounds)]
        srcs = [Source('d%d' % i, 'b', n) for i, n in enumerate(ns)]
        def rp():
            return {'kind': 'writes', 'args': {'lengths': [ev(n) for n in ns], 'end': 'finalise',
                                               'data': [concretize(s_.rope(), ev) if ev(s_.length) else b'' for s_ in srcs]}}
        core.set_fallback(rp, 'C04/concretised')
        for s in srcs:
            blk.write(s.rope())
        blk.finalise()
        D = cat('b', *[s.rope() for s in srcs])
        check_blocked(f.getvalue(), D, True, maxblocks, 'after %d writes + finalise' % len(bounds), key='C04/history', replay=rp)
        return {'sample': {'lengths': [ev(n) for n in ns], 'size': ev(f.size())}, 'replay': rp()}
    return h


def oneshot(nmax, maxblocks):
    def h():
        core.FUEL.set(maxblocks + 3)
        m = M().mciipm
        n = sym_int('n', 0, nmax)
        d = Source('data', 'b', n)
        def rp():
            return {'kind': 'oneshot', 'args': {'n': ev(n), 'data': concretize(d.rope(), ev) if ev(n) else b''}}
        core.set_fallback(rp, 'C04/concretised')
        fin_ = RopeFile(d.rope())
        fout = RopeFile()
        try:
            m.block_1014(fin_, fout)
        except core.OutOfFuel:
            fail('block_1014 does not terminate', key='C04/hang', replay=rp)
        O = fout.getvalue()
        require(same_int(fout.pos, 0) and same_int(fin_.pos, 0), 'both files are rewound', key='C04/oneshot', replay=rp)
        if not s_eq(n, 0):
            check_blocked(O, d.rope(), True, maxblocks, 'block_1014 output', key='C04/oneshot', replay=rp)
        else:
            require(s_eq(rlen(O) % 1014, 0), 'block_1014 of empty input', key='C04/oneshot', replay=rp)
        # streaming blocker on the same data
        core.FUEL.set(maxblocks + 3)
        f2 = RopeFile()
        blk = m.Block1014(f2)
        blk.write(d.rope())
        blk.finalise()
        S = f2.getvalue()
        LO = rlen(O)
        LS = rlen(S)
        require(LS >= LO, 'streaming output shorter than one-shot output', key='C04/oneshot-vs-stream', replay=rp)
        req_eq(sl(S, 0, LO), O, 'streaming and one-shot outputs differ', key='C04/oneshot-vs-stream', replay=rp)
        extra = LS - LO
        require(s_or(s_eq(extra, 0), s_eq(extra, 1014)), 'outputs differ by more than one trailing block', key='C04/oneshot-vs-stream', replay=rp)
        if not s_eq(extra, 0):
            req_eq(sl(S, LO, LS), mk('b', [Fill(PAD, 1014)]), 'the extra trailing block is not all fill', key='C04/oneshot-vs-stream', replay=rp)
        return {'sample': {'n': ev(n), 'oneshot_size': ev(LO), 'stream_size': ev(LS)}, 'replay': rp()}
    return h


def megabyte():
    """one very large write (a whole file handed over in one call): concrete lengths, the loop runs natively"""
    def h():
        from . import ref
        m = M().mciipm
        lens = choose('lengths', [[300, 1012 * 1050, 1200], [1012 * 1100 + 5], [1, 1012 * 1001]])
        core.FUEL.set(1300)
        f = RopeFile()
        blk = m.Block1014(f)
        rp = {'kind': 'writes', 'args': {'lengths': lens, 'end': 'finalise'}}
        core.set_fallback(rp, 'C04/concretised')
        data = [ref.content(n, i) for i, n in enumerate(lens)]
        with guard('Block1014.write of about a megabyte', 'C04/large-write', rp):
            for d in data:
                blk.write(d)
            blk.finalise()
        prob = ref.blocked_problem(f.getvalue(), b''.join(data), True)
        require(prob is None, 'large write: %s' % prob, key='C04/large-write', replay=rp)
        return {'sample': {'lengths': lens, 'size': len(f.getvalue())}, 'replay': rp}
    return h


def oneshot_large():
    """block_1014 on whole files of concrete size up to a megabyte (any internal batching has to come out the same)"""
    def h():
        from . import ref
        m = M().mciipm
        n = choose('size', [64 * 1012 + 1, 64 * 1014 + 1, 70000, 1012 * 259, 200000, (1 << 20) + 17])
        core.FUEL.set(1300)
        rp = {'kind': 'oneshot', 'args': {'n': n}}
        core.set_fallback(rp, 'C04/concretised')
        d = ref.content(n)
        fi, fo = RopeFile(d), RopeFile()
        with guard('block_1014 of a large file', 'C04/oneshot', rp):
            m.block_1014(fi, fo)
        prob = ref.blocked_problem(fo.getvalue(), d, True)
        require(prob is None, 'block_1014 of %d bytes: %s' % (n, prob), key='C04/oneshot', replay=rp)
        return {'sample': {'n': n, 'size': len(fo.getvalue())}, 'replay': rp}
    return h


def obligations(tier):
    q = tier == 'quick'
    nmax = 3 * 1012 + 50 if q else 6100
    mb = 5 if q else 8
    obs = [
        Ob('step/write-from-any-state', step(nmax, mb), 120,
           'pre-state remaining_chars r in 0..1012 (every reachable state), one write of n in 0..%d bytes' % nmax, _funcs,
           'writes longer than %d bytes; induction covers histories of any length' % nmax),
        Ob('fin/finalise-from-any-state', fin('finalise'), 60, 'r in 0..1012', _funcs),
        Ob('fin/seek-from-any-state', fin('seek'), 60, 'r in 0..1012', _funcs),
        Ob('fin/close-from-any-state', fin('close'), 60, 'r in 0..1012', _funcs),
        Ob('history/2-writes', history([2100, 3100] if q else [3100, 4100], 7 if q else 9), 120,
           'two writes of 0..2100 / 0..3100 bytes from a fresh blocker, then finalise', _funcs),
        Ob('oneshot/block_1014-vs-streaming', oneshot(3100 if q else 6100, 5 if q else 8), 120,
           'input length 0..%d' % (3100 if q else 6100), _funcs),
    ]
    obs.append(Ob('oneshot/large-files', oneshot_large(), 120, 'block_1014 on six concrete file sizes between 64 KB and 1 MB (block-aligned, one over, odd)', _funcs,
                  'other sizes above the symbolic bound'))
    obs.append(Ob('history/megabyte-write', megabyte(), 120, 'three concrete write sequences with one write of about a megabyte (over 1000 blocks)', _funcs,
                  'symbolic write lengths above %d bytes' % nmax))
    if not q:
        obs.append(Ob('history/3-writes', history([1100, 2100, 1100], 6), 300, 'three writes 0..1100/0..2100/0..1100', _funcs))
    return obs
