"""C18 -- parameter extraction returns exactly the requested table's rows and columns"""
from vsym.runner import Ob
from vsym import models
from .common import *
from vsym.core import choose

PROPERTY = 'C18'
DEBUG_LOG = ['generated/compressed/cp500/1014', 'packaged/IP0075T1/expanded']      # obligations that are also explored with debug logging switched on
PYTHON_O = ['generated/compressed/latin_1/vbs', 'packaged/IP0075T1/expanded', 'refusals']      # obligations that are also explored with the modules compiled as under python -O
ASSUMPTIONS = [
    'extract file = literal index rows + literal trailer + up to 3 data rows; each data row = literal key fields (timestamp, code, table id / sub id) '
    'followed by opaque text of symbolic length; which table each row belongs to is explored exhaustively',
    'column layout: the four packaged tables concretely, plus a generated table whose column start/end are symbolic integers',
    'the csv writer is a row-level stub (DictWriter semantics: fieldnames, extrasaction=ignore); quoting is done by the C _csv module and is outside',
]
CODECS = ('latin_1', 'cp500', 'cp037')
SUBID = {'IP0040T1': '036', 'IP0075T1': '071', 'IP0006T1': '006', 'IP0095T1': '090', 'IPGEN0T1': '123', 'IPOTHER1': '555'}


def _funcs():
    m = M().mciipm
    return [m.IpmParamReader.__init__, m.IpmParamReader.__next__, m.IpmParamReader._get_param_field, m.VbsReader.__next__]


def index_row(table):
    return (' ' * 11 + 'IP0000T1' + table).ljust(243) + SUBID[table] + ' ' * 10


TRAILER = 'TRAILER RECORD IP0000T1  00000218'


def build_file(m, rows, enc, blocked, with_trailer=True, tables=None):
    f = RopeFile()
    w = m.VbsWriter(f, blocked=blocked)
    for t in (tables or SUBID):
        w.write(index_row(t).encode(enc))
    if with_trailer:
        w.write(TRAILER.encode(enc))
    for r in rows:
        w.write(r.encode(enc) if not isinstance(r, bytes) else r)
    w.close()
    f.pos = 0
    return f


def data_row(i, table, expanded, maxlen):
    ts = '%07d' % (2100000 + i) if not expanded else '%010d' % (2100000000 + i)
    code = 'A' if i % 2 == 0 else 'I'
    key = ts + code + (table if expanded else SUBID[table])
    lo, hi = maxlen if isinstance(maxlen, tuple) else (0, maxlen)
    n = sym_int('row%d_len' % i, lo, hi)
    src = Source('row%d' % i, 't', n)
    body = src.rope() if not (isinstance(n, int) and n == 0) else ''
    return cat('t', key, body), ts, code


def extract(table, cfg_mode, expanded, enc, blocked, nrows, maxlen, via_csv=False, start_lo=19):
    def h():
        core.FUEL.set(40)
        m = M().mciipm
        if cfg_mode == 'packaged':
            pcfg = None
            from . import packaged
            layout = packaged.param_tables()[table]
        else:
            S = sym_int('col_start', start_lo, 60)
            E = sym_int('col_end', 19, 90)
            layout = {'gen_col': {'start': S, 'end': E}, 'fixed_col': {'start': 19, 'end': 22}}
            pcfg = {table: layout}
        member = [choose('row%d_table' % i, [table, 'IPOTHER1']) for i in range(nrows)]
        rows = [data_row(i, member[i], expanded, maxlen) for i in range(nrows)]
        # the table index may or may not list the requested table; expanded rows carry their own table id, so the index plays no part there
        index = choose('index', ['all', 'without-requested']) if expanded else 'all'
        tables = None if index == 'all' else [t for t in SUBID if t != table]
        # tables may be written in several sections, each closed by its own trailer record: rows after such a record still belong to the table
        mid_trailer = choose('table_trailer_after_row', [None] + list(range(nrows)))

        def rp():
            return {'kind': 'extract', 'args': {'table': table, 'cfg': 'packaged' if pcfg is None else {k: {'start': ev(v['start']), 'end': ev(v['end'])} for k, v in layout.items()},
                                                'expanded': expanded, 'enc': enc, 'blocked': blocked, 'member': member,
                                                'lens': [ev(rlen(r[0])) for r in rows], 'index': index,
                                                'rows': [concretize(r[0], ev) for r in rows], 'mid_trailer': mid_trailer}}
        core.set_fallback(rp, 'C18/concretised')
        file_rows = [r[0] for r in rows]
        if mid_trailer is not None:
            file_rows.insert(mid_trailer + 1, 'TRAILER RECORD %s  %08d' % (table, mid_trailer + 1))
        f = build_file(m, file_rows, enc, blocked, tables=tables)
        got = []
        with guard('IpmParamReader', 'C18/exception', rp):
            if via_csv:
                tool = M().mci_ipm_param_to_csv
                out = models.CsvOut()
                tool.mci_ipm_param_to_csv(f, out, table, config=pcfg or M().config.config['mci_parameter_tables'], in_encoding=enc,
                                          no1014blocking=not blocked, expanded=expanded)
                got = out.rows
                require(out.header == ['table_id', 'effective_timestamp', 'active_inactive_code'] + list(layout), 'CSV header', key='C18/csv', replay=rp)
            else:
                rd = m.IpmParamReader(f, table, encoding=enc, param_config=pcfg, expanded=expanded, blocked=blocked)
                for d in rd:
                    core.FUEL.set(40)
                    got.append(d)
                    if len(got) > nrows:
                        break
        want = [i for i in range(nrows) if member[i] == table]
        require(len(got) == len(want), 'returned %d rows, the table has %d' % (len(got), len(want)), key='C18/rows', replay=rp)
        off = 0 if expanded else -8
        for d, i in zip(got, want):
            row, ts, code = rows[i]
            require(d.get('table_id') == table, 'table_id', key='C18/common', replay=rp)
            require(d.get('effective_timestamp') == ts, 'row %d: effective timestamp %r' % (i, d.get('effective_timestamp')), key='C18/common', replay=rp)
            require(d.get('active_inactive_code') == code, 'row %d: active/inactive code' % i, key='C18/common', replay=rp)
            for col, pos in layout.items():
                exp = sl(row, pos['start'] + off, pos['end'] + off)
                req_eq(d.get(col), exp, 'row %d: column %s is not characters %s..%s of the row' % (i, col, pos['start'], pos['end']), key='C18/column', replay=rp)
            require(set(d) == {'table_id', 'effective_timestamp', 'active_inactive_code'} | set(layout), 'unexpected keys', key='C18/column', replay=rp)
        return {'sample': {'member': member, 'rows_returned': len(got), 'lens': [ev(rlen(r[0])) for r in rows]}, 'replay': rp()}
    return h


def two_readers():
    """two extracts that number their tables differently, each with its own reader, open at the same time (or one after the other):
    every reader resolves sub-ids through the index of its own file"""
    def h():
        core.FUEL.set(60)
        m = M().mciipm
        from . import packaged
        order = choose('order', ['open-both-first', 'one-after-the-other'])
        ta, tb = 'IP0075T1', 'IP0095T1'
        la, lb = packaged.param_tables()[ta], packaged.param_tables()[tb]
        swapped = {ta: SUBID[tb], tb: SUBID[ta]}
        ns = [sym_int('row%d_len' % i, 0, 80) for i in range(4)]
        bodies = [Source('row%d' % i, 't', n).rope() if not (isinstance(n, int) and n == 0) else '' for i, n in enumerate(ns)]
        # file A numbers the tables as usual; file B has the two sub-ids the other way round
        rows_a = [cat('t', '2100000A' + SUBID[ta], bodies[0]), cat('t', '2100001A' + SUBID[tb], bodies[1])]
        rows_b = [cat('t', '2100002A' + swapped[ta], bodies[2]), cat('t', '2100003A' + swapped[tb], bodies[3])]
        rp = lambda: {'kind': 'two_readers', 'args': {'order': order, 'bodies': [concretize(b, ev) if isinstance(b, Rope) else b for b in bodies]}}
        core.set_fallback(rp, 'C18/concretised')

        def mkfile(rows, ids):
            f = RopeFile()
            w = m.VbsWriter(f)
            for t in (ta, tb):
                w.write(((' ' * 11 + 'IP0000T1' + t).ljust(243) + ids[t] + ' ' * 10).encode('latin_1'))
            w.write(TRAILER.encode('latin_1'))
            for r in rows:
                w.write(r.encode('latin_1'))
            w.close()
            f.pos = 0
            return f
        fa, fb = mkfile(rows_a, {ta: SUBID[ta], tb: SUBID[tb]}), mkfile(rows_b, swapped)
        with guard('IpmParamReader x 2', 'C18/exception', rp):
            if order == 'open-both-first':
                ra, rb = m.IpmParamReader(fa, ta), m.IpmParamReader(fb, ta)
                got_a, got_b = list(ra), list(rb)
            else:
                got_a = list(m.IpmParamReader(fa, ta))
                got_b = list(m.IpmParamReader(fb, ta))
        for name, got, row in (('first', got_a, rows_a[0]), ('second', got_b, rows_b[0])):
            require(len(got) == 1, 'the %s reader returned %d rows of %s, its file has 1' % (name, len(got), ta), key='C18/two-readers', replay=rp)
            for col, pos in la.items():
                req_eq(got[0].get(col), sl(row, pos['start'] - 8, pos['end'] - 8), '%s reader: column %s is not characters %s..%s of its row'
                       % (name, col, pos['start'], pos['end']), key='C18/two-readers', replay=rp)
        return {'sample': {'order': order, 'lens': [ev(n) for n in ns]}, 'replay': rp()}
    return h


def ascii_reader():
    """reading with the strict ascii codec a file in which only rows of *other* tables (and the filler behind the configured columns of
    the requested rows) contain bytes outside ASCII: the reader looks only at the key fields and the configured columns"""
    def h():
        m = M().mciipm
        from . import packaged
        table = 'IP0075T1'
        layout = packaged.param_tables()[table]
        width = max(p['end'] for p in layout.values()) - 8
        expanded = choose('expanded', [False, True])
        off = 0 if expanded else -8
        blocked = choose('blocked', [False, True])
        where = choose('non_ascii_in', ['foreign-row', 'filler-behind-columns', 'nowhere'])
        rows = []
        for i, t in enumerate([table, 'IPOTHER1', table]):
            ts = '%07d' % (2100000 + i) if not expanded else '%010d' % (2100000000 + i)
            key = ts + 'A' + (t if expanded else SUBID[t])
            body = ''.join(chr(65 + (j + 3 * i) % 26) for j in range(width + 8 - len(key) + (0 if not expanded else 8)))
            row = (key + body).encode('ascii')
            if t != table and where == 'foreign-row':
                row = row[:30] + b'caf\xe9 \xfc\xdf' + row[37:]
            if t == table and where == 'filler-behind-columns':
                row = row + b' \xe9\xe9 filler'
            rows.append((row, ts, t))
        rp = {'kind': 'ascii', 'args': {'expanded': expanded, 'blocked': blocked, 'where': where}}
        core.set_fallback(rp, 'C18/concretised')
        f = build_file(m, [r[0] for r in rows], 'ascii', blocked)
        with guard('IpmParamReader(encoding=ascii)', 'C18/exception', rp):
            got = list(m.IpmParamReader(f, table, encoding='ascii', expanded=expanded, blocked=blocked))
        want = [r for r in rows if r[2] == table]
        require(len(got) == len(want), 'returned %d rows, the table has %d' % (len(got), len(want)), key='C18/rows', replay=rp)
        for d, (row, ts, t) in zip(got, want):
            require(d.get('effective_timestamp') == ts, 'effective timestamp', key='C18/common', replay=rp)
            for col, pos in layout.items():
                require(d.get(col) == row[pos['start'] + off:pos['end'] + off].decode('ascii'), 'column %s' % col, key='C18/column', replay=rp)
        return {'sample': rp['args'], 'replay': rp}
    return h


def refusals():
    def h():
        m = M().mciipm
        which = choose('case', ['no-trailer', 'other-trailer-only', 'no-config', 'not-in-caller-config', 'ok', 'ok-caller-config', 'no-records', 'zero-bytes'])
        expanded = choose('expanded', [False, True])          # the refusals do not depend on the representation of the rows
        rows = [data_row(0, 'IP0040T1', expanded, 50)]
        rp = {'kind': 'refuse', 'args': {'case': which, 'expanded': expanded}}
        core.set_fallback(rp, 'C18/concretised')
        extra_rows = ['TRAILER RECORD IP0075T1  00000003'] if which == 'other-trailer-only' else []
        f = build_file(m, extra_rows + [r[0] for r in rows] + extra_rows, 'latin_1', False, with_trailer=(which not in ('no-trailer', 'other-trailer-only')))
        if which == 'no-records':
            f = RopeFile(b'\x00\x00\x00\x00')          # a VBS file that holds nothing but the terminator
        elif which == 'zero-bytes':
            f = RopeFile(b'')
        caller = {'IP0075T1': {'col': {'start': 19, 'end': 22}}, 'IP0190T1': {'col': {'start': 19, 'end': 30}}}
        try:
            if which == 'not-in-caller-config':
                m.IpmParamReader(f, 'IP0040T1', param_config=caller, expanded=expanded)        # the caller's configuration counts, not the packaged one
            elif which == 'ok-caller-config':
                m.IpmParamReader(f, 'IP0075T1', param_config=caller, expanded=expanded)
            else:
                m.IpmParamReader(f, 'IP0040T1' if which != 'no-config' else 'IP9999T1', expanded=expanded)
            raised = False
        except m.MciIpmDataError:
            raised = True
        except core.ControlFlow:
            raise
        except Exception as e:
            fail('refusal raised %s instead of the library error' % type(e).__name__, key='C18/refuse', replay=rp)
        require(raised == (not which.startswith('ok')), 'case %s: %s' % (which, 'refused' if raised else 'accepted'), key='C18/refuse', replay=rp)
        return {'sample': {'case': which, 'refused': raised}, 'replay': rp}
    return h


def obligations(tier):
    q = tier == 'quick'
    obs = []
    nrows = 2 if q else 3
    for expanded in (False, True):
        x = 'expanded' if expanded else 'compressed'
        for enc in (CODECS if not q else ('latin_1', 'cp500')):
            for blocked in (False, True):
                if q and blocked != (enc == 'cp500'):
                    continue
                obs.append(Ob('generated/%s/%s/%s' % (x, enc, '1014' if blocked else 'vbs'),
                              extract('IPGEN0T1', 'generated', expanded, enc, blocked, nrows, 120), 600,
                              'generated table: column start 19..60 / end 19..90 symbolic, %d rows of symbolic length (body 0..120), every membership pattern' % nrows, _funcs))
        for table in ('IP0040T1', 'IP0075T1', 'IP0006T1', 'IP0095T1'):
            if q and table in ('IP0006T1',) and expanded:
                continue
            bounds = {'IP0040T1': (150, 200), 'IP0006T1': (60, 120)}.get(table, (0, 120))
            obs.append(Ob('packaged/%s/%s' % (table, x), extract(table, 'packaged', expanded, 'latin_1', False, 2, bounds), 900,
                          'packaged layout of %s, 2 rows with body length %d..%d, every membership pattern' % (table, bounds[0], bounds[1]), _funcs))
    obs.append(Ob('csv/IP0075T1/compressed', extract('IP0075T1', 'packaged', False, 'cp500', True, 2, 60, via_csv=True), 600,
                  'through mci_ipm_param_to_csv with the row-level csv stub', _funcs))
    obs.append(Ob('csv/generated/expanded', extract('IPGEN0T1', 'generated', True, 'latin_1', False, 2, 100, via_csv=True), 600,
                  'through mci_ipm_param_to_csv, generated layout', _funcs))
    obs.append(Ob('generated/expanded/columns-over-the-key-fields', extract('IPGEN0T1', 'generated', True, 'latin_1', False, 1, 120, start_lo=0), 600,
                  'generated table whose column may start anywhere from position 0 (over the timestamp / code / table id of an expanded row)', _funcs))
    obs.append(Ob('ascii-codec/non-ascii-outside-the-columns', ascii_reader(), 120,
                  'encoding=ascii (strict codec), concrete rows: bytes >= 0x80 only in a row of another table / behind the configured columns', _funcs))
    obs.append(Ob('two-readers/different-sub-id-numbering', two_readers(), 300,
                  'two compressed extracts whose indexes give IP0075T1 and IP0095T1 each other\'s sub-id, a reader on each (opened together / one after the other), '
                  'rows of every length', _funcs))
    obs.append(Ob('refusals', refusals(), 60, 'missing trailer / unconfigured table', _funcs))
    return obs
