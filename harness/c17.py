"""C17 -- file inspection recognises writer output: validity, encoding family, blocking"""
import binascii
import struct
from vsym.runner import Ob
from .common import *
from .isomsg import *

PROPERTY = 'C17'
DEBUG_LOG = ['writer/1rec/latin_1/blocked']      # obligations that are also explored with debug logging switched on
PYTHON_O = ['writer/1rec/latin_1/blocked', 'writer/1rec/latin_1/unblocked', 'invalid/short', 'invalid/first-length']      # obligations that are also explored with the modules compiled as under python -O
ASSUMPTIONS = [
    'files are produced by the real IpmWriter on a RopeFile from symbolic messages (few, long records: lengths symbolic so that files span 1..9 blocks)',
    'for unblocked files the two bytes at offsets 1012-1013 are whatever the writer put there; opaque content there is read through the peek table',
]
BIG = [2, 48, 54, 72, 111, 127]
MTIS = ['1240', '1442', '1644', '9876', '5039']     # every decimal digit occurs in some first MTI      # variable-length elements that make long records (up to ~5000 bytes)


def _funcs():
    m = M().mciipm
    return [m.ipm_info, m.block_1014_check, m.bitmap_check, m.encoding_check, m.IpmWriter.write, m.VbsWriter.close, m.Block1014.write]


def writer_file(nrec, enc, blocked, bits_for, mtis=('1240',)):
    def h():
        core.FUEL.set(30)
        m = M().mciipm
        f = RopeFile()
        w = m.IpmWriter(f, encoding=enc, blocked=blocked)
        wit = []
        mti0 = choose('mti', list(mtis))
        for i in range(nrec):
            msg, elems = build_message(bits_for(i), mti=mti0 if i == 0 else '1240', tag='_r%d' % i)
            # elements get distinct source names per record
            for e in elems:
                pass
            w.write(dict(msg))
            wit.append((msg, elems))
        w.close()
        data = f.getvalue()
        size = rlen(data)

        def rp():
            return {'kind': 'info', 'args': {'msgs': [msg_witness(mm, ee, ev) for mm, ee in wit], 'enc': enc, 'blocked': blocked}}
        core.set_fallback(rp, 'C17/concretised')
        f.pos = 0
        with guard('ipm_info', 'C17/exception', rp):
            info = m.ipm_info(f)
        require(is_true(info.get('isValidIPM')), 'writer output reported invalid: %s' % (info.get('reason'),), key='C17/valid', replay=rp)
        fam = 'latin1' if enc == 'latin_1' else 'cp037'
        require(info.get('encoding') == fam, 'encoding family reported as %r' % (info.get('encoding'),), key='C17/encoding', replay=rp)
        if blocked:
            require(is_true(info.get('isBlocked')), 'blocked file of %s bytes reported as not blocked' % (ev(size),), key='C17/blocked', replay=rp)
        else:
            if size >= 1014:
                looks = (sl(data, 1012, 1014) == b'\x40\x40')
                if not looks:
                    require(is_false(info.get('isBlocked')), 'unblocked file reported as blocked', key='C17/unblocked', replay=rp)
            else:
                require(is_false(info.get('isBlocked')), 'unblocked file shorter than a block reported as blocked', key='C17/unblocked', replay=rp)
        return {'sample': {'size': ev(size), 'blocks': ev(size // 1014), 'info': {k: (v if isinstance(v, (bool, str)) else str(v)) for k, v in info.items()}}, 'replay': rp()}
    return h


def invalid_short():
    def h():
        m = M().mciipm
        n = sym_int('n', 0, 23)
        src = Source('file', 'b', n)
        # first length is read from the file: make it small so that only the size test decides
        f = RopeFile(src.rope() if not (isinstance(n, int) and n == 0) else b'')
        rp = {'kind': 'short', 'args': {'n': ev(n)}}
        core.set_fallback(rp, 'C17/concretised')
        with guard('ipm_info', 'C17/exception', rp, allow=(core.Unsupported,)):
            try:
                info = m.ipm_info(f)
            except core.Unsupported:
                raise core.PathAbort('opaque bitmap')
        if n < 24:
            require(is_false(info.get('isValidIPM')) and info.get('reason'), 'input shorter than 24 bytes not reported invalid with a reason', key='C17/short', replay=rp)
        return {'sample': {'n': ev(n), 'valid': info.get('isValidIPM')}, 'replay': rp}
    return h


def invalid_length():
    def h():
        m = M().mciipm
        L = sym_int('first_len', 0, 0xFFFFFFFF)
        body = bitmap_bytes([2])
        data = cat('b', mk('b', [U32(L, '>I')]), b'1240', body, b'0512345' + b' ' * 40)
        f = RopeFile(data)
        rp = {'kind': 'firstlen', 'args': {'L': ev(L)}}
        core.set_fallback(rp, 'C17/concretised')
        with guard('ipm_info', 'C17/exception', rp):
            info = m.ipm_info(f)
        from . import packaged
        mx = packaged.MAX_VBS_RECORD_LENGTH
        if L > mx:
            require(is_false(info.get('isValidIPM')) and info.get('reason'), 'first length above the maximum not reported invalid', key='C17/maxlen', replay=rp)
        else:
            require(is_true(info.get('isValidIPM')), 'first length within the maximum reported invalid', key='C17/maxlen', replay=rp)
        return {'sample': {'first_len': ev(L), 'valid': info.get('isValidIPM')}, 'replay': rp}
    return h


def invalid_bit():
    def h():
        m = M().mciipm
        cfg = bit_config()
        unconf = [b for b in range(2, 129) if str(b) not in cfg]
        b = choose('bit', unconf)
        bit1 = choose('bit1', [True, False])
        # alone, or together with configured elements above and below it: one unconfigured element makes the file invalid whatever else is set
        others = choose('others', [[2], [2, 127], [94, 127], [2, 3, 4, 127]])
        data = struct.pack('>I', 30) + b'1240' + bitmap_bytes(sorted(set(others + [b])), bit1) + b'0512345' + b' ' * 40
        rp = {'kind': 'bit', 'args': {'bit': b, 'bit1': bit1, 'others': others}}
        core.set_fallback(rp, 'C17/concretised')
        with guard('ipm_info', 'C17/exception', rp):
            info = m.ipm_info(RopeFile(data))
        require(is_false(info.get('isValidIPM')) and info.get('reason'), 'unconfigured bit %d not reported invalid' % b, key='C17/bit', replay=rp)
        return {'sample': {'bit': b, 'reason': str(info.get('reason'))}, 'replay': rp}
    return h


def configured_max():
    """the maximum first length follows the configuration at run time"""
    def h():
        m = M().mciipm
        cfg = M().config.config
        old = cfg.get('MAX_VBS_RECORD_LENGTH', 6000)
        newmax = choose('newmax', [200, 1500, 8000])
        L = sym_int('first_len', 0, 20000)
        data = cat('b', mk('b', [U32(L, '>I')]), b'1240', bitmap_bytes([2]), b'0512345' + b' ' * 40)
        rp = {'kind': 'firstlen', 'args': {'L': ev(L), 'newmax': newmax}}
        core.set_fallback(rp, 'C17/concretised')
        cfg['MAX_VBS_RECORD_LENGTH'] = newmax
        try:
            with guard('ipm_info', 'C17/exception', rp):
                info = m.ipm_info(RopeFile(data))
        finally:
            cfg['MAX_VBS_RECORD_LENGTH'] = old
        if L > newmax:
            require(is_false(info.get('isValidIPM')) and info.get('reason'), 'first length above the configured maximum (%d) not reported invalid' % newmax, key='C17/maxlen', replay=rp)
        else:
            require(is_true(info.get('isValidIPM')), 'first length within the configured maximum (%d) reported invalid' % newmax, key='C17/maxlen', replay=rp)
        return {'sample': {'first_len': ev(L), 'max': newmax, 'valid': info.get('isValidIPM')}, 'replay': rp}
    return h


def obligations(tier):
    q = tier == 'quick'
    obs = []
    for enc in CODECS:
        for blocked in (True, False):
            tag = '%s/%s' % (enc, 'blocked' if blocked else 'unblocked')
            obs.append(Ob('writer/1rec/' + tag, writer_file(1, enc, blocked, lambda i: BIG), 300,
                          'one record with elements %s of every admissible length (record up to ~5000 bytes, file 1..6 blocks)' % BIG, _funcs))
            if not q:
                obs.append(Ob('writer/2rec/' + tag, writer_file(2, enc, blocked, lambda i: [2, 54, 72] if i else [2, 48, 111, 127]), 900,
                              'two records (elements 2,48,111,127 / 2,54,72), every admissible length, file 1..7 blocks', _funcs))
            elif enc == 'latin_1':
                obs.append(Ob('writer/2rec/' + tag, writer_file(2, enc, blocked, lambda i: [2, 72] if i else [48, 127]), 600,
                              'two records (elements 48,127 / 2,72), every admissible length, file 1..4 blocks', _funcs))
    for enc in CODECS:
        for blocked in (True, False):
            obs.append(Ob('writer/mti-family/%s/%s' % (enc, 'blocked' if blocked else 'unblocked'), writer_file(1, enc, blocked, lambda i: [2, 72], MTIS), 300,
                          'first MTI from %s (every decimal digit occurs), one record with elements 2 and 72 of every length' % MTIS, _funcs))
    if not q:
        obs.append(Ob('writer/3rec/latin_1/blocked', writer_file(3, 'latin_1', True, lambda i: [[2, 127], [54, 72], [111, 3]][i]), 900, 'three records', _funcs))
    obs.append(Ob('invalid/short', invalid_short(), 200, 'opaque input of every length below 24 bytes', _funcs))
    obs.append(Ob('invalid/first-length', invalid_length(), 60, 'first 4-byte length any 32-bit value (max / max+1 boundary is a value of it)', _funcs))
    obs.append(Ob('invalid/first-length/configured-max', configured_max(), 60, 'MAX_VBS_RECORD_LENGTH set to 200 / 1500 / 8000 at run time, first length any value 0..20000', _funcs))
    obs.append(Ob('invalid/unconfigured-bit', invalid_bit(), 120, 'each bit without configuration set in the first bitmap', _funcs))
    return obs
