"""C01 -- ISO8583 round trip: decoding an encoded message returns every value unchanged"""
import itertools
from vsym.runner import Ob
from .common import *
from .isomsg import *

PROPERTY = 'C01'
DEBUG_LOG = ['single/latin_1/bin']      # obligations that are also explored with debug logging switched on
PYTHON_O = ['single/latin_1/bin', 'pds-keys/latin_1', 'generic/g-typed/cp037']      # obligations that are also explored with the modules compiled as under python -O
ASSUMPTIONS = [
    'element subsets are concrete and drawn from a family (every single configured element, pairs, one-of-each-class messages); '
    'lengths, numeric values and text content are symbolic',
    'text content opaque, tagged with the codec it was encoded with (a wrong codec on decode shows as inequality); codecs latin_1, cp500, cp037 '
    '(total single-byte codecs: len(encode(s)) == len(s), decode(encode(s)) == s, checked over all 256 code points at start-up)',
    'datetime values are opaque tokens: strptime(strftime(d, f), f) == d assumed for representable dates (CPython %y window 1969..2068)',
    'DE43 regex matching is a nondeterministic stub (match / no match, opaque groups); ICC payloads are a concrete TLV family',
]


def _funcs():
    i = M().iso8583
    return [i.dumps, i.loads, i._dict_to_iso8583, i._field_to_iso8583, i._pytype_to_string, i._iso8583_to_dict, i._iso8583_to_field,
            i._string_to_pytype, i._get_field_length, i._get_bitmap_list, i._pds_to_de, i._pds_to_dict, i._icc_to_dict, i._get_de43_fields,
            M().BitArray.BitArray.tolist, M().BitArray.BitArray.fromlist]


def check_codecs():
    for c in CODECS:
        for i in range(256):
            b = bytes([i])
            s = b.decode(c)
            assert len(s) == 1 and s.encode(c) == b, (c, i)


def roundtrip_body(bits, enc, hexbm, maxvar=None, cfgs=None, cfgname='packaged', tag='', rp_of=None):
    """one dumps/loads round trip of a symbolic message over `bits`; returns (msg, elems)"""
    iso = M().iso8583
    kw = {'tag': tag} if tag else {}
    msg, elems = build_message(bits, cfgs=cfgs, maxvar=maxvar, **kw)

    def rp_single():
        return {'kind': 'roundtrip', 'args': {'msg': msg_witness(msg, elems, ev), 'enc': enc, 'hexbm': hexbm, 'cfg': cfgname if cfgs is None else cfgs}}
    rp = rp_single if rp_of is None else (lambda: rp_of(msg, elems))
    core.set_fallback(rp, 'C01/concretised')
    with guard('dumps', 'C01/encode-exception', rp):
        b = iso.dumps(dict(msg), encoding=enc, hex_bitmap=hexbm, iso_config=cfgs)
    with guard('loads(dumps(m))', 'C01/decode-exception', rp):
        d = iso.loads(b, encoding=enc, hex_bitmap=hexbm, iso_config=cfgs)
    require(d.get('MTI') == msg['MTI'], 'MTI changed', key='C01/value', replay=rp)
    allowed = {'MTI'}
    for e in elems:
        got = d.get(e.key)
        require(e.key in d, '%s lost' % e.key, key='C01/lost', replay=rp)
        if e.kind == 'num':
            require(isinstance(got, (int, SInt)) and not isinstance(got, bool), '%s is not a number' % e.key, key='C01/value', replay=rp)
            require(s_eq(got, e.expect), '%s changed' % e.key, key='C01/value', replay=rp)
        elif e.kind == 'dec':
            require(type(got) is type(e.expect) and got == e.expect, '%s changed' % e.key, key='C01/value', replay=rp)
        elif e.kind == 'date':
            require(models.dates_equal(got, e.expect), '%s changed' % e.key, key='C01/value', replay=rp)
        else:
            req_eq(got, e.expect, '%s changed' % e.key, key='C01/value', replay=rp)
        for k, v in e.pds.items():
            require(k in d, '%s lost' % k, key='C01/lost', replay=rp)
            req_eq(d[k], v, '%s changed' % k, key='C01/value', replay=rp)
        allowed.add(e.key)
        allowed |= e.derived
    if cfgs is not None:
        carriers = {'DE%s' % k for k, v in cfgs.items() if v.get('field_processor') == 'PDS'}
        if any(isinstance(e, PdsElem) for e in elems):
            allowed = (allowed - {'DE%d' % c for c in PDS_CARRIERS}) | carriers | {e.key for e in elems}
    extra = [k for k in d if k not in allowed]
    require(not extra, 'undocumented extra keys %s' % extra, key='C01/extra', replay=rp)
    return msg, elems, rp


def roundtrip(pick, enc, hexbm, maxvar=None, cfgs=None, cfgname='packaged'):
    def h():
        core.FUEL.set(40)
        bits = pick()
        msg, elems, rp = roundtrip_body(bits, enc, hexbm, maxvar, cfgs, cfgname)
        return {'sample': {'bits': bits, 'enc': enc, 'hex': hexbm, 'values': {k: (str(v)[:40]) for k, v in msg_witness(msg, elems, ev).items()}},
                'replay': rp()}
    return h


RECONF_A = {'2': {'field_type': 'LLVAR', 'field_length': 0}, '3': {'field_type': 'FIXED', 'field_length': 6, 'field_python_type': 'int'},
            '48': {'field_type': 'LLLVAR', 'field_length': 0, 'field_processor': 'PDS'}, '62': {'field_type': 'LLLVAR', 'field_length': 0}}
RECONF_B = {'2': {'field_type': 'LLLVAR', 'field_length': 0}, '3': {'field_type': 'FIXED', 'field_length': 8, 'field_python_type': 'int'},
            '48': {'field_type': 'LLLVAR', 'field_length': 0}, '62': {'field_type': 'LLLVAR', 'field_length': 0, 'field_processor': 'PDS'}}


def reconfigured(enc, hexbm):
    """the same configuration object, edited in place between two uses: the second round trip follows the edited configuration"""
    import copy

    def h():
        core.FUEL.set(40)
        cfg = copy.deepcopy(RECONF_A)
        first = {}

        def rp1(msg, elems):
            return {'kind': 'reconfig', 'args': {'msgs': [msg_witness(msg, elems, ev)], 'cfgs': [RECONF_A], 'enc': enc, 'hexbm': hexbm}}
        m1, e1, _ = roundtrip_body([2, 3, 62, 'PDS0023'], enc, hexbm, 200, cfg, tag='_a', rp_of=rp1)
        w1 = (m1, e1)
        # in-place edit (same dict object): PDS processor moves from DE48 to DE62, two widths change
        cfg.clear()
        cfg.update(copy.deepcopy(RECONF_B))

        def rp2(msg, elems):
            return {'kind': 'reconfig', 'args': {'msgs': [msg_witness(*w1, ev), msg_witness(msg, elems, ev)], 'cfgs': [RECONF_A, RECONF_B],
                                                 'enc': enc, 'hexbm': hexbm}}
        m2, e2, rp = roundtrip_body([2, 3, 48, 'PDS0023'], enc, hexbm, 200, cfg, tag='_b', rp_of=rp2)
        return {'sample': {'enc': enc, 'second': {k: str(v)[:30] for k, v in msg_witness(m2, e2, ev).items()}}, 'replay': rp()}
    return h


def family_pairs(all_pairs):
    bits = configured_bits()
    if all_pairs:
        return list(itertools.combinations(bits, 2))
    out = [(a, b) for a, b in zip(bits, bits[1:])]
    out += [(bits[0], bits[-1]), (2, 48), (48, 55), (4, 12), (55, 127), (43, 62), (63, 71), (2, 100)]
    return sorted(set(out))


def class_mixes():
    """one element of each class together ('everything' messages)"""
    return [
        [2, 3, 4, 12, 26, 43, 48, 55, 63, 71, 100, 127],
        [3, 5, 10, 12, 31, 54, 62, 72, 95, 111, 123],
        [2, 14, 22, 33, 38, 42, 49, 73, 93, 94, 124, 125],
    ]


GENERIC_DEC = {'8': {'field_type': 'FIXED', 'field_length': 12, 'field_python_type': 'decimal'},
               '28': {'field_type': 'LLVAR', 'field_length': 9, 'field_python_type': 'decimal'},
               '3': {'field_type': 'FIXED', 'field_length': 6}}


GENERIC_UNORDERED = {k: v for k, v in [
    ('100', {'field_type': 'LLVAR', 'field_length': 0}), ('12', {'field_type': 'FIXED', 'field_length': 6}),
    ('2', {'field_type': 'LLVAR', 'field_length': 0}), ('10', {'field_type': 'FIXED', 'field_length': 8, 'field_python_type': 'long'}),
    ('4', {'field_type': 'FIXED', 'field_length': 12, 'field_python_type': 'long'})]}


GENERIC = {
    'g-fixed': {'2': {'field_type': 'FIXED', 'field_length': 1}, '3': {'field_type': 'FIXED', 'field_length': 100},
                '70': {'field_type': 'FIXED', 'field_length': 999}, '127': {'field_type': 'FIXED', 'field_length': 8}},
    'g-var': {'2': {'field_type': 'LLVAR', 'field_length': 0}, '64': {'field_type': 'LLLVAR', 'field_length': 0},
              '65': {'field_type': 'LLVAR', 'field_length': 0}, '127': {'field_type': 'LLLVAR', 'field_length': 0}},
    'g-typed': {'5': {'field_type': 'FIXED', 'field_length': 1, 'field_python_type': 'int'},
                '6': {'field_type': 'FIXED', 'field_length': 18, 'field_python_type': 'long'},
                '7': {'field_type': 'FIXED', 'field_length': 6, 'field_python_type': 'datetime'},
                '90': {'field_type': 'FIXED', 'field_length': 8, 'field_python_type': 'datetime', 'field_date_format': '%Y%m%d'}},
}


def obligations(tier):
    q = tier == 'quick'
    check_codecs()
    obs = []
    bits = None
    for enc in CODECS:
        for hexbm in (False, True):
            if q and hexbm and enc != 'latin_1':
                continue
            tag = '%s/%s' % (enc, 'hex' if hexbm else 'bin')
            obs.append(Ob('single/' + tag, roundtrip(lambda: [choose('bit', configured_bits())], enc, hexbm), 300,
                          'each configured element alone (44): every admissible length 1..99 / 1..999, every numeric value 0..10^w-1', _funcs,
                          'element subsets outside the family; decimal fields; date formats not in the configuration'))
    for enc in (CODECS if not q else ('latin_1', 'cp500')):
        for hexbm in ((False, True) if not q else (False,)):
            tag = '%s/%s' % (enc, 'hex' if hexbm else 'bin')
            pairs = family_pairs(not q)
            obs.append(Ob('pair/' + tag, roundtrip(lambda pairs=pairs: list(choose('pair', pairs)), enc, hexbm), 900,
                          '%d element pairs (%s), all lengths/values' % (len(pairs), 'all pairs' if not q else 'adjacent + boundary pairs'), _funcs))
    for k, mix in enumerate(class_mixes()):
        for enc in (('cp500',) if q else CODECS):
            obs.append(Ob('mix%d/%s' % (k, enc), roundtrip(lambda mix=mix: list(mix), enc, k % 2 == 1, maxvar=None), 900,
                          'elements %s together, all lengths/values' % mix, _funcs))
    for name, cfg in GENERIC.items():
        for enc in (('cp037',) if q else CODECS):
            gb = sorted(int(k) for k in cfg)
            obs.append(Ob('generic/%s/%s' % (name, enc), roundtrip(lambda gb=gb: list(gb), enc, False, cfgs=cfg), 600,
                          'caller-supplied configuration %s: %s' % (name, {k: (v['field_type'], v['field_length']) for k, v in cfg.items()}), _funcs))
    for enc in (('latin_1',) if q else CODECS):
        obs.append(Ob('pds-keys/%s' % enc, roundtrip(lambda: [2, 'PDS0105', 'PDS0146', 'PDS0158'], enc, False, maxvar=992), 600,
                      'DE2 plus three PDSxxxx entries, every combination of value lengths 0..992 (one to three carriers)', _funcs))
    obs.append(Ob('generic/g-unordered-keys/cp500', roundtrip(lambda: [2, 4, 10, 12, 100], 'cp500', False, cfgs=GENERIC_UNORDERED), 300,
                  'caller-supplied configuration whose dictionary keys are not in ascending numeric order (as after a JSON round trip with sorted string keys)', _funcs))
    for enc, hexbm in ((('latin_1', False),) if q else (('latin_1', False), ('cp500', True))):
        obs.append(Ob('reconfigured/%s' % enc, reconfigured(enc, hexbm), 600,
                      'one caller-supplied configuration object used for a round trip, edited in place (PDS carrier moved, widths changed) and used again: '
                      'nothing may be remembered from the first use', _funcs))
    TWO_DATES = {'13': {'field_type': 'FIXED', 'field_length': 6, 'field_python_type': 'datetime', 'field_date_format': '%y%m%d'},
                 '15': {'field_type': 'FIXED', 'field_length': 6, 'field_python_type': 'datetime', 'field_date_format': '%d%m%y'}}
    obs.append(Ob('generic/g-two-date-formats/latin_1', roundtrip(lambda: [13, 15], 'latin_1', False, cfgs=TWO_DATES), 300,
                  'two date elements of the same width and different formats (%y%m%d, %d%m%y), symbolic dates: equal digit strings stand for different dates', _funcs))
    import itertools as _it
    subsets = [[8], [28], [8, 28], [3, 8, 28]]
    obs.append(Ob('generic/g-decimal/latin_1', roundtrip(lambda: list(choose('subset', subsets)), 'latin_1', False, cfgs=GENERIC_DEC), 300,
                  'caller-supplied configuration with decimal fields (FIXED 12 / LLVAR): concrete decimal values from a family incl. zero values; '
                  'decimal arithmetic runs natively', _funcs))
    return obs
