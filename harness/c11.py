"""C11 -- closing a writer finalises the file exactly once, however close is reached"""
import itertools
from vsym.runner import Ob
from .common import *

PROPERTY = 'C11'
DEBUG_LOG = ['vbs/blocked/1rec/close', 'ipm/unblocked/1rec/exit']      # obligations that are also explored with debug logging switched on
ASSUMPTIONS = [
    'file object = RopeFile with io.BytesIO positional-overwrite semantics; real files on disk are outside the claim',
    'record content opaque; record lengths symbolic',
]


def _funcs():
    m = M().mciipm
    return [m.VbsWriter.write, m.VbsWriter.close, m.VbsWriter.__exit__, m.VbsWriter.__enter__, m.IpmWriter.write,
            m.Block1014.write, m.Block1014.seek, m.Block1014.finalise, m.VbsReader.__next__]


def history(writer, blocked, nrec, fins, maxlen, readable=True, optimize=0, seekable=True, many=False):
    nblocks = (nrec * (maxlen + 4) + 4 * (1 + len(fins))) // 1012 + 2 + len(fins)

    def h():
        core.FUEL.set(nblocks + 4)
        m = M(optimize=optimize).mciipm
        f = RopeFile(readable=readable, seekable=seekable)
        ns = [sym_int('len%d' % i, 1, maxlen) for i in range(nrec)]
        recs = [Source('rec%d' % i, 'b', n).rope() for i, n in enumerate(ns)] if writer == 'vbs' else None
        vals = [Source('pan%d' % i, 't', n).rope() for i, n in enumerate(ns)] if writer != 'vbs' else None

        def rp():
            a = {'kind': 'history', 'args': {'writer': writer, 'blocked': blocked, 'lengths': [ev(n) for n in ns], 'fins': list(fins), 'readable': readable, 'seekable': seekable, 'many': many,
                                            'content': [concretize(x, ev) for x in (recs if writer == 'vbs' else vals)]}}
            if optimize:
                a['mode'] = '-O'
            return a
        core.set_fallback(rp, 'C11/concretised')
        if writer == 'vbs':
            w = m.VbsWriter(f, blocked=blocked)
            items = recs
        else:
            w = m.IpmWriter(f, blocked=blocked)
            items = [{'MTI': '1144', 'DE2': v} for v in vals]
        w.__enter__()
        bound_close = w.close               # a callable taken before the first finalisation (an ExitStack callback, `finish = writer.close`)
        if many:
            # the records arrive in more than one step: a batch through write_many, then a single write
            w.write_many(items[:-1])
            w.write(items[-1])
        else:
            for it in items:
                w.write(it)
        snap = None
        for k, fin in enumerate(fins):
            core.FUEL.set(nblocks + 4)
            if not seekable:
                # a forward-only output stream: the rewind at the end of the finalisation fails; the caller carries on and finalises again
                import io as _io
                try:
                    w.close() if fin == 'close' else w.__exit__(None, None, None)
                except (_io.UnsupportedOperation, OSError):
                    pass
            elif fin == 'close':
                w.close()
            elif fin == 'bound-close':
                bound_close()
            elif fin.startswith('exit-'):
                # the with block is left by an exception: the file is finalised all the same, the exception is not swallowed
                exc = {'exit-error': ValueError, 'exit-generator-exit': GeneratorExit, 'exit-keyboard-interrupt': KeyboardInterrupt}[fin]
                swallowed = w.__exit__(exc, exc('leaving the with block'), None)
                require(not swallowed, '__exit__ swallows the exception that ended the with block', key='C11/exit-swallows', replay=rp)
            elif fin == 'with':
                with w:             # the writer goes through a (further) with block
                    pass
            else:
                w.__exit__(None, None, None)
            if k == 0:
                snap = f.getvalue()
        final = f.getvalue()
        if readable and seekable:
            require(same_int(f.pos, 0), 'the finalised file is not left at its start', key='C11/rewind', replay=rp)
        if blocked and writer == 'vbs':
            from .c03 import stream_of
            check_blocked(final, stream_of(recs), True, nblocks + 2, 'finalised blocked file', key='C11/blocked-form', replay=rp)
        elif blocked:
            require(s_eq(rlen(final) % 1014, 0), 'finalised blocked file is not a whole number of 1014-byte blocks', key='C11/blocked-form', replay=rp)
        if len(fins) > 1:
            req_eq(final, snap, 'a later finalisation changed the file completed by the first one', key='C11/refinalise', replay=rp)
        # read back
        core.FUEL.set(nblocks + 4)
        f = RopeFile(final)          # read back what is in the file
        got = []
        try:
            rd = (m.VbsReader if writer == 'vbs' else m.IpmReader)(f, blocked=blocked)
            for rec in rd:
                core.FUEL.set(nblocks + 4)
                got.append(rec)
                if len(got) > nrec:
                    break
        except m.MciIpmDataError as e:
            fail('file does not read back: %s' % (e.args[:1],), key='C11/readback', replay=rp)
        require(len(got) == nrec, 'read back %d records, wrote %d' % (len(got), nrec), key='C11/readback', replay=rp)
        for i in range(nrec):
            if writer == 'vbs':
                req_eq(got[i], recs[i], 'record %d differs' % (i + 1), key='C11/readback', replay=rp)
            else:
                require(got[i].get('MTI') == '1144', 'MTI differs', key='C11/readback', replay=rp)
        return {'sample': {'lengths': [ev(n) for n in ns], 'fins': list(fins), 'size': ev(rlen(final))}, 'replay': rp()}
    return h


def obligations(tier):
    q = tier == 'quick'
    obs = []
    seqs = [s for k in (1, 2, 3) for s in itertools.product(('close', 'exit'), repeat=k)]
    for writer in ('vbs', 'ipm'):
        for blocked in (False, True):
            for nrec in ((0, 1) if q else (0, 1, 2)):
                for fins in seqs:
                    if q and len(fins) == 3 and fins not in (('close', 'close', 'exit'), ('exit', 'close', 'close')):
                        continue
                    maxlen = 2500 if writer == 'vbs' else 99
                    obs.append(Ob('%s/%s/%drec/%s' % (writer, 'blocked' if blocked else 'unblocked', nrec, '+'.join(fins)),
                                  history(writer, blocked, nrec, fins, maxlen), 120,
                                  '%d record(s) of length 1..%d, finalisations %s' % (nrec, maxlen, '+'.join(fins)), _funcs,
                                  'more than %d finalisations; writes after a finalisation' % 3))
    for blocked in (False, True):
        for fins in (('close',), ('exit',), ('close', 'exit')):
            obs.append(Ob('ipm/%s/write_many-then-write/2rec/%s' % ('blocked' if blocked else 'unblocked', '+'.join(fins)),
                          history('ipm', blocked, 2, fins, 99, many=True), 120,
                          'two records: the first through write_many, the second through write, then the finalisations', _funcs))
    for writer in ('vbs', 'ipm'):
        for fins in (('close',), ('exit',), ('close', 'exit')):
            obs.append(Ob('%s/blocked/write-only-file/1rec/%s' % (writer, '+'.join(fins)), history(writer, True, 1, fins, 2500 if writer == 'vbs' else 99, readable=False), 120,
                          'file object opened write-only (readable() is False), blocked output', _funcs))
    for writer in ('vbs', 'ipm'):
        for blocked in (False, True):
            for fins in (('close',), ('exit',), ('close', 'exit')):
                obs.append(Ob('%s/%s/1rec/%s/python-O' % (writer, 'blocked' if blocked else 'unblocked', '+'.join(fins)),
                              history(writer, blocked, 1, fins, 2500 if writer == 'vbs' else 99, optimize=1), 120,
                              'the same under python -O (module compiled with optimize=1: assert statements removed), replayed in a python -O subprocess', _funcs))
    for writer in ('vbs', 'ipm'):
        for blocked in (False, True):
            for fins in (('exit-error',), ('exit-generator-exit',), ('exit-keyboard-interrupt', 'close'), ('bound-close', 'close'), ('close', 'bound-close'),
                         ('bound-close', 'bound-close'), ('exit', 'bound-close')):
                if q and writer == 'ipm' and fins not in (('exit-generator-exit',), ('close', 'bound-close')):
                    continue
                obs.append(Ob('%s/%s/1rec/%s' % (writer, 'blocked' if blocked else 'unblocked', '+'.join(fins)),
                              history(writer, blocked, 1, fins, 2500 if writer == 'vbs' else 99), 120,
                              'finalisation through a with block that is left by an exception / through a close callable taken before the first finalisation', _funcs))
    for writer in ('vbs', 'ipm'):
        for blocked in (False, True):
            for fins in (('close', 'close'), ('close', 'exit')):
                if q and writer == 'ipm' and fins != ('close', 'exit'):
                    continue
                obs.append(Ob('%s/%s/1rec/forward-only-stream/%s' % (writer, 'blocked' if blocked else 'unblocked', '+'.join(fins)),
                              history(writer, blocked, 1, fins, 2500 if writer == 'vbs' else 99, seekable=False), 120,
                              'output stream that cannot seek (pipe): the rewind of the first finalisation raises, a second finalisation adds nothing', _funcs))
    for blocked in (False, True):
        for fins in (('close', 'with'), ('exit', 'with'), ('with', 'with'), ('close', 'with', 'close')):
            obs.append(Ob('vbs/%s/1rec/%s' % ('blocked' if blocked else 'unblocked', '+'.join(fins)), history('vbs', blocked, 1, fins, 2500), 120,
                          'finalisation sequences in which the writer is used as a context manager again after a finalisation', _funcs))
    return obs
