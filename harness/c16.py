"""C16 -- masking never discloses more than the first six and last four digits"""
import copy
from vsym.runner import Ob
from .common import *
from .isomsg import *

PROPERTY = 'C16'
PYTHON_O = ['mask/10..40', 'processor/PAN/latin_1', 'processor/PAN-PREFIX/cp500']      # obligations that are also explored with the modules compiled as under python -O
ASSUMPTIONS = [
    'card number content is opaque (mask() and the field processors never inspect characters), length symbolic; mask characters from a concrete set',
    'messages decoded under configurations that put PAN / PAN-PREFIX on each variable-length element of the packaged configuration in turn',
]
MASKS = ['*', 'X', '#', '0', ' ']


def _funcs():
    i = M().iso8583
    return [M().card.mask, i._iso8583_to_field, i._pan_prefix, i.loads, i._iso8583_to_dict]


def mask_fn(lo, hi):
    def h():
        card = M().card
        n = sym_int('n', lo, hi)
        src = Source('pan', 't', n)
        v = src.rope()
        mc = choose('mask', MASKS + [None])
        rp = {'kind': 'mask', 'args': {'n': ev(n), 'mask': mc}}
        core.set_fallback(rp, 'C16/concretised')
        with guard('mask', 'C16/exception', rp):
            out = card.mask(v) if mc is None else card.mask(v, mc)
        mch = mc or '*'
        require(s_eq(rlen(out), n), 'masked value has a different length', key='C16/length', replay=rp)
        req_eq(sl(out, 0, 6), sl(v, 0, 6), 'does not begin with the first six characters', key='C16/first6', replay=rp)
        req_eq(sl(out, n - 4, n), sl(v, n - 4, n), 'does not end with the last four characters', key='C16/last4', replay=rp)
        mid = sl(out, 6, n - 4)
        req_eq(mid, mk('t', [Fill(mch, n - 10)]) if not same_int(n, 10) else '', 'a middle position does not hold the mask character', key='C16/middle', replay=rp)
        return {'sample': {'n': ev(n), 'mask': mch}, 'replay': rp}
    return h


def mask_chars(lo, hi):
    """mask() on strings of symbolic digit characters (concrete length, every digit value): content-dependent faults are visible here"""
    from vsym.symstr import SymStr, Dig, digit_string, concretize_str, cell_eq

    def h():
        from .pinmods import P
        card = P().card
        n = choose('n', list(range(lo, hi + 1)))
        v = digit_string('d', n)
        mc = choose('mask', ['*', 'X'])

        def rp():
            return {'kind': 'maskdigits', 'args': {'digits': concretize_str(v, ev), 'mask': mc}}
        core.set_fallback(rp, 'C16/concretised')
        with guard('mask', 'C16/exception', rp):
            out = SymStr.of(card.mask(v, mc))
        require(len(out.cells) == n, 'masked value has a different length', key='C16/length', replay=rp)
        require(out[0:6] == v[0:6], 'does not begin with the first six characters', key='C16/first6', replay=rp)
        require(out[n - 4:n] == v[n - 4:n], 'does not end with the last four characters', key='C16/last4', replay=rp)
        for i in range(6, n - 4):
            require(cell_eq(out.cells[i], mc), 'position %d does not hold the mask character' % i, key='C16/middle', replay=rp)
        return {'sample': rp()['args'], 'replay': rp()}
    return h


UNUSUAL = ['\n', '\r', '\\', '*', ' ', '\x00', '\xe9', '$', '^', '.', '\t', '0']


def mask_unusual():
    """mask() on card numbers that contain one unusual character at any position (the property covers arbitrary characters)"""
    def h():
        from .pinmods import P
        card = P().card
        n = choose('n', [10, 11, 13, 16, 19, 25])
        ch = choose('char', UNUSUAL)
        pos = choose('pos', list(range(n)))
        mc = choose('mask', ['*', '#'])
        digits = ''.join(str((i * 7 + 3) % 10) for i in range(n))
        v = digits[:pos] + ch + digits[pos + 1:]
        rp = {'kind': 'maskdigits', 'args': {'digits': v, 'mask': mc}}
        core.set_fallback(rp, 'C16/concretised')
        with guard('mask', 'C16/exception', rp):
            out = card.mask(v, mc)
        ok = len(out) == n and out[:6] == v[:6] and out[n - 4:] == v[n - 4:] and out[6:n - 4] == mc * (n - 10)
        require(ok, 'mask(%r) -> %r' % (v, out), key='C16/mask', replay=rp)
        return {'sample': {'n': n, 'char': repr(ch), 'pos': pos}, 'replay': rp}
    return h


def typed_processor(proc):
    """PAN / PAN-PREFIX on a variable-length element that also has a numeric python type: concrete card numbers from a family"""
    PANS = ['4564320012', '45643200123', '4564320012321122', '5111111111112234', '4111111111111111111', '1234567890123456789']

    def h():
        iso = M().iso8583
        cfgs = copy.deepcopy(bit_config())
        bit = choose('bit', [2, 32, 100])
        pt = choose('pytype', [None, 'string', 'int', 'long'])
        pan = choose('pan', PANS)
        cfgs[str(bit)]['field_processor'] = proc
        if pt:
            cfgs[str(bit)]['field_python_type'] = pt
        rp = {'kind': 'typed', 'args': {'proc': proc, 'bit': bit, 'pytype': pt, 'pan': pan}}
        core.set_fallback(rp, 'C16/concretised')
        wire = iso.dumps({'MTI': '1240', 'DE%d' % bit: pan}, iso_config=cfgs)
        try:
            d = iso.loads(wire, iso_config=cfgs)
        except iso.Iso8583DataError:
            return {'sample': dict(rp['args'], result='library error: no dictionary returned'), 'replay': rp}
        except core.ControlFlow:
            raise
        except Exception as e:
            fail('loads raised %s' % type(e).__name__, key='C16/exception', replay=rp)
        # a numeric python type zero-pads the value to the configured field length on the wire; the processors act on the wire text
        w = cfgs[str(bit)].get('field_length', 0)
        pan = pan.zfill(w) if pt in ('int', 'long') else pan
        secret = pan[6:-4] if proc == 'PAN' else pan[9:]
        want = (pan[:6] + '*' * (len(pan) - 10) + pan[-4:]) if proc == 'PAN' else pan[:9]
        got = d.get('DE%d' % bit)
        require(str(got) == want or (pt in ('int', 'long') and proc == 'PAN-PREFIX' and got == int(want)),
                'element came back as %r' % (got,), key='C16/proc-value', replay=rp)
        for k, val in d.items():
            require(not (len(secret) >= 1 and str(val) != want and secret in str(val) and len(str(val)) >= len(pan) - 1),
                    'clear PAN appears in %s' % k, key='C16/leak', replay=rp)
        return {'sample': dict(rp['args'], result=str(got)), 'replay': rp}
    return h


def leaks(value, src, lo, hi):
    """does a decoded value contain characters [lo,hi) of the clear PAN source? -> bool/SBool"""
    if not isinstance(value, Rope):
        return False
    conds = []
    for p in value.pieces:
        base = p
        while isinstance(base, rope.Frag):
            base = base.base
        if isinstance(p, Opq) and p.src is src:
            # piece [p.lo, p.hi) intersects [lo, hi) and is non-empty
            conds.append(s_and(p.lo < hi, p.hi > lo, p.hi > p.lo))
    return s_or(*conds) if conds else False


def default_route(proc):
    """an application installs its own default configuration (config['bit_config'] rebound after import) and decodes without passing one"""
    def h():
        iso = M().iso8583
        cfgmod = M().config.config
        from . import packaged
        new = packaged.bit_config_copy()
        new['2']['field_processor'] = proc
        n = sym_int('n', 10 if proc == 'PAN' else 1, 19)
        src = Source('pan', 't', n)
        v = src.rope()
        via = choose('via', ['loads', 'IpmReader'])

        def rp():
            return {'kind': 'default_route', 'args': {'proc': proc, 'n': ev(n), 'via': via}}
        core.set_fallback(rp, 'C16/concretised')
        wire = iso.dumps({'MTI': '1240', 'DE2': v, 'DE3': '000000'}, iso_config=new)
        old = cfgmod['bit_config']
        cfgmod['bit_config'] = new
        try:
            with guard('decoding under the installed default configuration', 'C16/exception', rp):
                if via == 'loads':
                    d = iso.loads(wire)
                else:
                    m = M().mciipm
                    f = RopeFile()
                    w = m.VbsWriter(f)
                    w.write(wire)
                    w.close()
                    d = next(m.IpmReader(f))
        finally:
            cfgmod['bit_config'] = old
        got = d.get('DE2')
        if proc == 'PAN':
            want = cat('t', sl(v, 0, 6), mk('t', [Fill('*', n - 10)]) if not same_int(n, 10) else '', sl(v, n - 4, n))
        else:
            want = sl(v, 0, 9)
        req_eq(got, want, 'DE2 is not the masked value / prefix under the installed default configuration', key='C16/proc-value', replay=rp)
        return {'sample': {'n': ev(n), 'proc': proc, 'via': via}, 'replay': rp()}
    return h


def processor(proc, enc, hexbm=False, prior=None):
    """prior: None, 'same-object' (the configuration object decodes a message before the processor is switched on in it) or 'copied-after-use'
    (the packaged configuration decodes a message, then a deep copy of it gets the processor)"""
    def h():
        iso = M().iso8583
        base = bit_config()
        var = [b for b in configured_bits() if base[str(b)]['field_type'] in ('LLVAR', 'LLLVAR') and not base[str(b)].get('field_processor')]
        if prior:
            var = [2, 32, 100]
        bit = choose('bit', var)
        if prior == 'copied-after-use':
            iso.loads(iso.dumps({'MTI': '1240', 'DE%d' % bit: '1234567890123456', 'DE3': '000000'}, encoding=enc), encoding=enc)
        cfgs = copy.deepcopy(base)
        if prior == 'same-object':
            iso.loads(iso.dumps({'MTI': '1240', 'DE%d' % bit: '1234567890123456', 'DE3': '000000'}, encoding=enc, iso_config=cfgs), encoding=enc, iso_config=cfgs)
        cfgs[str(bit)]['field_processor'] = proc
        top = 10 ** flen(cfgs[str(bit)]) - 1
        n = sym_int('n', 10 if proc == 'PAN' else 1, min(top, 120))
        src = Source('pan', 't', n)
        v = src.rope()
        other = choose('other', [None, 3, 127 if bit != 127 else 111])
        msg = {'MTI': '1240', 'DE%d' % bit: v}
        if other:
            e2 = Elem(other, cfgs[str(other)])
            msg[e2.key] = e2.value

        def rp():
            return {'kind': 'processor', 'args': {'proc': proc, 'bit': bit, 'n': ev(n), 'other': other, 'enc': enc, 'hexbm': hexbm, 'prior': prior,
                                                 'content': concretize(v, ev)}}
        core.set_fallback(rp, 'C16/concretised')
        wire = iso.dumps(dict(msg), encoding=enc, iso_config=cfgs, hex_bitmap=hexbm)
        with guard('loads under a masking configuration', 'C16/exception', rp):
            d = iso.loads(wire, encoding=enc, iso_config=cfgs, hex_bitmap=hexbm)
        got = d.get('DE%d' % bit)
        if proc == 'PAN':
            want = cat('t', sl(v, 0, 6), mk('t', [Fill('*', n - 10)]) if not same_int(n, 10) else '', sl(v, n - 4, n))
            req_eq(got, want, 'element is not the masked PAN', key='C16/proc-value', replay=rp)
            lo, hi = 6, n - 4
        else:
            want = sl(v, 0, 9)
            req_eq(got, want, 'element is not the 9-character prefix', key='C16/proc-value', replay=rp)
            lo, hi = 9, n
        for k, val in d.items():
            require(s_not(leaks(val, src, lo, hi)), 'clear PAN characters appear in %s' % k, key='C16/leak', replay=rp)
            if isinstance(k, Rope):
                require(s_not(leaks(k, src, lo, hi)), 'clear PAN characters appear in a key', key='C16/leak', replay=rp)
        return {'sample': {'bit': bit, 'n': ev(n), 'proc': proc}, 'replay': rp()}
    return h


def obligations(tier):
    q = tier == 'quick'
    obs = [Ob('mask/10..40', mask_fn(10, 40), 120, 'card numbers of every length 10..40, mask characters %s and the default' % MASKS, _funcs,
              'mask() on inputs shorter than 10 characters is outside the property'),
           Ob('mask/41..%d' % (200 if q else 999), mask_fn(41, 200 if q else 999), 120, 'longer card numbers', _funcs)]
    obs.append(Ob('mask/digits/10..19', mask_chars(10, 19 if q else 24), 600,
                  'card numbers of length 10..%d as strings of symbolic digit characters (every digit value at every position): catches content-dependent masking' % (19 if q else 24), _funcs))
    obs.append(Ob('mask/unusual-characters', mask_unusual(), 120,
                  'card numbers of length 10/11/13/16/19/25 with one unusual character (newline, backslash, NUL, non-ASCII, regex metacharacters ...) at every position', _funcs))
    for proc in ('PAN', 'PAN-PREFIX'):
        obs.append(Ob('processor-typed/%s' % proc, typed_processor(proc), 120,
                      '%s on DE2/DE32/DE100 combined with python types none/string/int/long; concrete card numbers from a family (10..19 digits, repeated digits)' % proc, _funcs))
    for proc in ('PAN', 'PAN-PREFIX'):
        obs.append(Ob('processor/%s/installed-default-configuration' % proc, default_route(proc), 300,
                      'config["bit_config"] rebound at run time to a configuration with the %s processor on DE2; loads / IpmReader called without a configuration' % proc, _funcs))
    for proc in ('PAN', 'PAN-PREFIX'):
        obs.append(Ob('processor/%s/hex-bitmap' % proc, processor(proc, 'cp500' if proc == 'PAN' else 'latin_1', hexbm=True), 600,
                      '%s through the hexadecimal bitmap rendering' % proc, _funcs))
        for prior in ('same-object', 'copied-after-use'):
            obs.append(Ob('processor/%s/config-%s' % (proc, prior), processor(proc, 'latin_1', prior=prior), 300,
                          '%s switched on in a configuration that has decoded a message before (%s)' % (proc, prior), _funcs))
    for proc in ('PAN', 'PAN-PREFIX'):
        for enc in (('latin_1', 'cp500') if q else CODECS):
            obs.append(Ob('processor/%s/%s' % (proc, enc), processor(proc, enc), 600,
                          '%s on each of the variable-length elements in turn, value length up to 120, alone or next to another element' % proc, _funcs))
    return obs
