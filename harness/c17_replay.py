import io
import struct
from . import ref


def replay_info(msgs, enc, blocked):
    from cardutil import mciipm
    from cardutil.config import config
    f = io.BytesIO()
    w = mciipm.IpmWriter(f, encoding=enc, blocked=blocked)
    for m in msgs:
        from . import packaged
        w.write(ref.concrete_msg(m, packaged.bit_config()))
    w.close()
    data = f.getvalue()
    try:
        info = mciipm.ipm_info(io.BytesIO(data))
    except Exception as e:
        return True, 'ipm_info raised %s' % type(e).__name__, 'C17/exception'
    if info.get('isValidIPM') is not True:
        return True, 'reported invalid: %s' % info.get('reason'), 'C17/valid'
    fam = 'latin1' if enc == 'latin_1' else 'cp037'
    if info.get('encoding') != fam:
        return True, 'encoding reported %r' % info.get('encoding'), 'C17/encoding'
    if blocked and info.get('isBlocked') is not True:
        return True, 'blocked file of %d bytes (%d blocks) reported not blocked' % (len(data), len(data) // 1014), 'C17/blocked'
    if not blocked and data[1012:1014] != b'@@' and info.get('isBlocked') is not False:
        return True, 'unblocked file reported blocked', 'C17/unblocked'
    # the same file handed over as other kinds of binary stream: the verdict does not depend on the stream type
    for name, stream in (('buffered reader with a 512-byte buffer', io.BufferedReader(io.BytesIO(data), buffer_size=512)),
                         ('buffered reader with a 16-byte buffer', io.BufferedReader(io.BytesIO(data), buffer_size=16))):
        try:
            other = mciipm.ipm_info(stream)
        except Exception as e:
            return True, 'ipm_info raised %s on a %s' % (type(e).__name__, name), 'C17/exception'
        if {k: other.get(k) for k in ('isValidIPM', 'encoding', 'isBlocked')} != {k: info.get(k) for k in ('isValidIPM', 'encoding', 'isBlocked')}:
            return True, 'verdict differs on a %s: %s' % (name, {k: other.get(k) for k in ('isValidIPM', 'isBlocked', 'reason')}), 'C17/stream-type'
    return False, 'ok', None


def replay_short(n):
    from cardutil import mciipm
    data = bytes([0, 0, 0, 30]) + b'1240' + ref.ref_bitmap([2]) + b'0512345' + b' ' * 30
    info = mciipm.ipm_info(io.BytesIO(data[:n]))
    bad = n < 24 and not (info.get('isValidIPM') is False and info.get('reason'))
    return bad, str(info), 'C17/short'


def replay_firstlen(L, newmax=None):
    from cardutil import mciipm
    from cardutil.config import config
    data = struct.pack('>I', L) + b'1240' + ref.ref_bitmap([2]) + b'0512345' + b' ' * 40
    old = config.get('MAX_VBS_RECORD_LENGTH', 6000)
    if newmax:
        config['MAX_VBS_RECORD_LENGTH'] = newmax
    try:
        info = mciipm.ipm_info(io.BytesIO(data))
    finally:
        config['MAX_VBS_RECORD_LENGTH'] = old
    mx = newmax or old
    bad = (info.get('isValidIPM') is not False or not info.get('reason')) if L > mx else info.get('isValidIPM') is not True
    return bad, str(info), 'C17/maxlen'


def replay_bit(bit, bit1=True, others=(2,)):
    from cardutil import mciipm
    bm = bytearray(ref.ref_bitmap(sorted(set(list(others) + [bit]))))
    if not bit1:
        bm[0] &= 0x7f
    data = struct.pack('>I', 30) + b'1240' + bytes(bm) + b'0512345' + b' ' * 40
    info = mciipm.ipm_info(io.BytesIO(data))
    bad = info.get('isValidIPM') is not False or not info.get('reason')
    return bad, str(info), 'C17/bit'
