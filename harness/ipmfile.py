"""helpers shared by the IPM file level harnesses (C06, C10, C19, C20)"""
from .common import *
from .isomsg import *


def compare_record(d, msg, elems, key, rp, what=''):
    """decoded dict d equals the written message (as C01 does)"""
    require(d.get('MTI') == msg['MTI'], what + 'MTI changed', key=key, replay=rp)
    allowed = {'MTI'}
    for e in elems:
        require(e.key in d, what + '%s lost' % e.key, key=key, replay=rp)
        got = d[e.key]
        if e.kind == 'num':
            require(isinstance(got, (int, SInt)) and not isinstance(got, bool) and s_eq(got, e.expect), what + '%s changed' % e.key, key=key, replay=rp)
        elif e.kind == 'date':
            require(models.dates_equal(got, e.expect), what + '%s changed' % e.key, key=key, replay=rp)
        else:
            req_eq(got, e.expect, what + '%s changed' % e.key, key=key, replay=rp)
        for k, v in e.pds.items():
            require(k in d, what + '%s lost' % k, key=key, replay=rp)
            req_eq(d[k], v, what + '%s changed' % k, key=key, replay=rp)
        allowed.add(e.key)
        allowed |= e.derived
    extra = [k for k in d if k not in allowed]
    require(not extra, what + 'extra keys %s' % extra, key=key, replay=rp)


SHAPES = [
    [2],
    [2, 3, 4],
    [3, 12, 48],
    [4, 26, 55],
    [2, 43, 63],
    [31, 71, 127],
]
