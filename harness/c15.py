"""C15 -- Luhn check digits are correct and validation really rejects bad numbers"""
import z3
from vsym.runner import Ob
from vsym import symstr
from vsym.symstr import SymStr, Dig, digit_string, concretize_str
from .common import core, sym_int, assume, require, fail, ev, guard, s_and, s_or, s_not, SInt
from vsym.core import choose, mk_bool, mk_int, s_eq
from .pinmods import P

PROPERTY = 'C15'
TECHNIQUE = 'the real card.py functions executed on strings of integer-valued digit characters (z3 linear integer arithmetic with div/mod by constants); one query per length and position over all digit values; second run with the module compiled with optimize=1 (python -O)'
ASSUMPTIONS = [
    'digit-string length is enumerated (1..24 quick, 1..40 thorough = the range the property names), every digit value symbolic 0..9',
    'div/mod by 10 of a term over one digit variable is replaced by a canonical 10-entry lookup table; each replacement is a lemma '
    '(for all d in 0..9: original == table) discharged by z3 once; the reference specification uses the same canonical form, so the residual '
    'queries do not depend on the digits (this is what makes 20-40 digits tractable)',
    'separators are concrete non-digit characters at enumerated positions',
    'optimised mode = the same source compiled with optimize=1 by the loader (assert statements removed, as python -O does); witnesses are replayed in a python -O subprocess',
]


def _funcs():
    c = P().card
    return [c.calculate_check_digit, c.validate_check_digit, c.add_check_digit]


def spec_digit(ds):
    """Luhn from the definition: from the right, double every second digit starting with the rightmost payload digit; digits of the
    doubled values are summed; check digit makes the total a multiple of 10.
    Per-digit contributions are written as canonical lookup tables (vsym.core.table), so that a correct implementation yields a
    syntactically equal sum and the residual query does not depend on the digits."""
    tot = 0
    dbl = True
    for d in reversed(ds):
        if dbl:
            tot = tot + (core.table(d, lambda v: 2 * v - 9 if v >= 5 else 2 * v) if isinstance(d, SInt) else (2 * d - 9 if d >= 5 else 2 * d))
        else:
            tot = tot + d
        dbl = not dbl
    t = core.lift(tot)
    return (10 - t % 10) % 10


def accepts(card, s):
    """does validate_check_digit accept?  (raises nothing = accepted)"""
    try:
        card.validate_check_digit(s)
        return True
    except AssertionError:
        return False


def luhn(L, opt, seps=None, base=48, prior=False):
    mode = '-O' if opt else 'normal'

    def h():
        card = P(optimize=1 if opt else 0).card
        s = digit_string('d', L, base)
        ds = [c.v for c in s.cells]
        what = choose('what', ['digit', 'valid', 'subst', 'transp'])
        shown = s
        if seps:
            # interleave concrete separators: they must not change anything
            cells = []
            for i, c in enumerate(s.cells):
                if i and i % seps[1] == 0:
                    cells.append(seps[0])
                cells.append(c)
            shown = SymStr(cells)

        def rp(extra=None):
            a = {'kind': 'luhn', 'mode': mode, 'args': {'digits': concretize_str(shown, ev), 'what': what, 'prior': prior}}
            a['args'].update(extra or {})
            return a
        core.set_fallback(rp, 'C15/concretised')
        if prior:
            # the process has completed and validated other numbers before: the same digits with one and with two more digits behind them
            # (same leading digits, lengths of both parities)
            for tail in ('7', '70'):
                longer = SymStr(list(shown.cells) + list(tail))
                with guard('earlier calls', 'C15/exception', rp, allow=(AssertionError,)):
                    accepts(card, card.add_check_digit(longer))
        if what == 'digit':
            with guard('calculate_check_digit', 'C15/exception', rp):
                cd = card.calculate_check_digit(shown)
            cd = SymStr.of(cd)
            require(len(cd.cells) == 1, 'check digit is not one character', key='C15/digit', replay=rp)
            c = cd.cells[0]
            v = c.v if isinstance(c, Dig) else int(c)
            require(mk_bool(core.lift(v) == spec_digit(ds)), 'check digit differs from the Luhn definition', key='C15/digit', replay=rp)
            return {'sample': rp()['args'], 'replay': rp()}
        with guard('add_check_digit', 'C15/exception', rp):
            good = SymStr.of(card.add_check_digit(shown))
        require(len(good.cells) == len(shown.cells) + 1 and SymStr(good.cells[:-1]) == shown,
                'add_check_digit does not return the number with one digit appended', key='C15/append', replay=rp)
        if what == 'valid':
            with guard('validate_check_digit', 'C15/exception', rp, allow=(AssertionError,)):
                ok = accepts(card, good)
            require(ok, 'number with its computed check digit does not validate', key='C15/valid', replay=rp)
            return {'sample': rp()['args'], 'replay': rp()}
        if what in ('subst', 'transp'):
            # the valid number is validated first (a check that remembers what it has accepted must not let the next number through)
            with guard('validate_check_digit', 'C15/exception', rp, allow=(AssertionError,)):
                require(accepts(card, good), 'number with its computed check digit does not validate', key='C15/valid', replay=rp)
        # positions of digit cells in `good`
        pos = [i for i, c in enumerate(good.cells) if not isinstance(c, str) or c.isdigit()]
        if what == 'subst':
            p = choose('pos', pos)
            x = core.cur().fresh_int('x', 0, 9)
            old = good.cells[p]
            oldv = old.v if isinstance(old, Dig) else int(old)
            assume(s_not(s_eq(x, oldv)))
            bad = SymStr(good.cells[:p] + [Dig(x, base)] + good.cells[p + 1:])
            with guard('validate_check_digit', 'C15/exception', lambda: rp({'pos': p, 'x': ev(x), 'xbase': base}), allow=(AssertionError,)):
                ok = accepts(card, bad)
            require(not ok, 'a number with one digit changed validates', key='C15/accepts-bad/%s' % mode, replay=lambda: rp({'pos': p, 'x': ev(x), 'xbase': base}))
            return {'sample': rp({'pos': p})['args'], 'replay': rp({'pos': p, 'x': ev(x), 'xbase': base})}
        if len(pos) < 2:
            return {'sample': rp()['args']}
        j = choose('pair', list(range(len(pos) - 1)))
        p, q = pos[j], pos[j + 1]
        a, b = good.cells[p], good.cells[q]
        av = a.v if isinstance(a, Dig) else int(a)
        bv = b.v if isinstance(b, Dig) else int(b)
        assume(s_not(s_eq(av, bv)))
        assume(s_not(s_or(s_and(s_eq(av, 0), s_eq(bv, 9)), s_and(s_eq(av, 9), s_eq(bv, 0)))))
        cells = list(good.cells)
        cells[p], cells[q] = cells[q], cells[p]
        bad = SymStr(cells)
        with guard('validate_check_digit', 'C15/exception', lambda: rp({'pos': p, 'swap': q}), allow=(AssertionError,)):
            ok = accepts(card, bad)
        require(not ok, 'a number with two adjacent digits swapped validates', key='C15/accepts-bad/%s' % mode, replay=lambda: rp({'pos': p, 'swap': q}))
        return {'sample': rp({'pos': p, 'swap': q})['args'], 'replay': rp({'pos': p, 'swap': q})}
    return h


def obligations(tier):
    q = tier == 'quick'
    obs = []
    top = 24 if q else 40
    for opt in (False, True):
        for L in range(1, top + 1):
            if opt and q and L not in (1, 2, 3, 8, 15, 16, 19, 22):
                continue
            obs.append(Ob('luhn/%s/len%02d' % ('O' if opt else 'normal', L), luhn(L, opt), 900 if L > 16 else 300,
                          'all digit strings of length %d: check digit, validity of the completed number, every single-digit substitution at '
                          'every position, every adjacent transposition (different digits, not 0/9)' % L, _funcs,
                          'digit strings longer than %d' % top))
    for name, base in (('arabic-indic', 0x660), ('fullwidth', 0xff10)) + (() if q else (('devanagari', 0x966), ('extended-arabic-indic', 0x6f0))):
        for L in ((2, 7, 16) if q else (1, 2, 3, 7, 10, 16, 19)):
            obs.append(Ob('luhn/%s-digits/len%02d' % (name, L), luhn(L, False, None, base), 300,
                          'all strings of %d decimal digits written in %s digits (digits for str.isdigit() and int(), hence for the library): same four checks' % (L, name),
                          _funcs))
    for L in ((7, 15, 16) if q else (6, 7, 8, 12, 15, 16, 18, 19)):
        obs.append(Ob('luhn/after-longer-numbers/len%02d' % L, luhn(L, False, prior=True), 600,
                      'the four checks on all digit strings of length %d in a process that has completed and validated the same digits followed by "7" and by "70" before' % L, _funcs))
    for L, sep in ((8, ('-', 4)), (12, (' ', 4)), (15, ('-', 5)), (10, (' ', 3)), (15, ('-', 4)), (7, ('/', 2))):
        obs.append(Ob('luhn/separators/len%02d' % L, luhn(L, False, sep), 300, '%d digits with %r every %d digits' % (L, sep[0], sep[1]), _funcs))
    return obs
