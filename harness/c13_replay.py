import binascii


def _ref0(pin, pan):
    p1 = ('0%x%s' % (len(pin), pin)).ljust(16, 'f')
    p2 = '0000' + pan[-13:-1]
    return (int(p1, 16) ^ int(p2, 16)).to_bytes(8, 'big')


def replay_iso0(pin, pan):
    from cardutil import pinblock
    try:
        blk = pinblock.Iso0PinBlock(pin, card_number=pan).to_bytes()
    except Exception as e:
        return True, 'to_bytes raised %s' % type(e).__name__, 'C13/iso0-exception'
    if blk != _ref0(pin, pan):
        return True, 'PIN %s -> block %s, ISO format 0 gives %s' % (pin, blk.hex(), _ref0(pin, pan).hex()), 'C13/iso0-layout/len%d' % (len(pin) >= 10)
    try:
        back = pinblock.Iso0PinBlock.from_bytes(blk, card_number=pan).pin
    except Exception as e:
        return True, 'from_bytes raised %s' % type(e).__name__, 'C13/iso0-exception'
    if back != pin:
        return True, 'PIN read back as %r' % back, 'C13/iso0-roundtrip'
    return False, 'ok', None


def replay_iso4(pin, random, positional=False):
    from cardutil import pinblock
    try:
        obj = pinblock.Iso4PinBlock(pin, random) if positional else pinblock.Iso4PinBlock(pin, random_value=random)
        blk = obj.to_bytes()
    except Exception as e:
        return True, 'raised %s' % type(e).__name__, 'C13/iso4-exception'
    want = binascii.unhexlify(('4%x%s' % (len(pin), pin)).ljust(16, 'a') + '%016x' % (random if random else obj.random_value))
    if blk != want or (random and obj.random_value != random):
        return True, 'PIN %s -> block %s, ISO format 4 gives %s' % (pin, blk.hex(), want.hex()), 'C13/iso4-layout/len%d' % (len(pin) >= 10)
    try:
        back = pinblock.Iso4PinBlock.from_bytes(blk).pin
    except Exception as e:
        return True, 'from_bytes raised %s' % type(e).__name__, 'C13/iso4-exception'
    if back != pin:
        return True, 'PIN read back as %r' % back, 'C13/iso4-roundtrip'
    return False, 'ok', None


def replay_enc(cls, pin, pan, key):
    from cardutil import pinblock
    from cryptography.hazmat.primitives.ciphers import Cipher, algorithms, modes
    from cryptography.hazmat.decrepit.ciphers import algorithms as d_algorithms
    C = getattr(pinblock, cls)
    is0 = cls.startswith('Iso0')
    try:
        obj = C(pin, card_number=pan) if is0 else C(pin, random_value=0x1122334455667788)
        clear = obj.to_bytes()
        ct = obj.to_enc_bytes(key)
        alg = d_algorithms.TripleDES(bytes.fromhex(key)) if is0 else algorithms.AES(bytes.fromhex(key))
        e = Cipher(alg, modes.ECB()).encryptor()
        want = e.update(clear) + e.finalize()
        if ct != want:
            return True, 'ciphertext differs from ECB(clear block)', 'C13/enc-dataflow'
        back = (C.from_enc_bytes(ct, key, card_number=pan) if is0 else C.from_enc_bytes(ct, key)).pin
    except Exception as e:
        return True, 'raised %s: %s' % (type(e).__name__, e), 'C13/enc-exception'
    if back != pin:
        return True, 'PIN read back as %r' % back, 'C13/enc-roundtrip'
    return False, 'ok', None


def replay_iso0_two(pin, pans):
    res = (False, 'ok', None)
    for k, pan in enumerate(pans):
        res = replay_iso0(pin, pan)
        if res[0]:
            return True, 'card %d (%s): %s' % (k + 1, pan, res[1]), 'C13/iso0-second-card' if 'layout' in (res[2] or '') else res[2]
    return res


def replay_enc_history(cls, pin, pan, key, refused, direction):
    from cardutil import pinblock
    C = getattr(pinblock, cls)
    for d in (['encrypt', 'decrypt'] if direction == 'both' else [direction]):
        try:
            getattr(C, d)(key, bytes.fromhex(refused))
        except Exception:          # what the refused call itself does is not part of the claim
            pass
    res = replay_enc(cls, pin, pan, key)
    if res[0]:
        return True, 'after %s() refused %d bytes under the same key: %s' % (direction, len(refused) // 2, res[1]), 'C13/enc-history'
    return res
