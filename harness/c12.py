"""C12 -- PDS sub-elements are packed into carrier elements and recovered without loss"""
from vsym.runner import Ob
from .common import *
from vsym.core import s_ite

PROPERTY = 'C12'
PYTHON_O = ['pack/3-tags']      # obligations that are also explored with the modules compiled as under python -O
DEBUG_LOG = ['pack/2-tags']      # obligations that are also explored with debug logging switched on
ASSUMPTIONS = [
    'PDS tags are concrete distinct 4-digit strings (a fixed family per obligation); value content opaque, value lengths symbolic 0..992',
    'capacity assumption of the property: the greedy packing of the set fits the five configured carriers (48, 62, 123, 124, 125)',
]
CARRIERS = [48, 62, 123, 124, 125]


def _funcs():
    i = M().iso8583
    return [i._pds_to_de, i._dict_to_iso8583, i._field_to_iso8583, i._pds_to_dict, i._iso8583_to_dict, i._iso8583_to_field]


def pack(tags, encoding='latin_1', cfgname=None, greedy=False):
    def h():
        core.FUEL.set(len(tags) + 3)
        iso = M().iso8583
        cfgs = None
        carriers = CARRIERS
        if cfgname == 'unordered-keys':
            # a configuration whose keys are not in ascending numeric order (JSON written with sorted string keys: "123" < "48" < "62")
            from . import packaged
            base = packaged.bit_config()
            cfgs = {k: dict(base[k]) for k in sorted(base)}
        if cfgname in ('de62-plain', 'reconfigured'):
            import copy
            from . import packaged
            cfgs = packaged.bit_config_copy()
            if cfgname == 'reconfigured':
                # the configuration object has been used before, with DE62 still a carrier, and is then edited in place
                iso.dumps({'MTI': '1240', 'PDS0001': 'A' * 600, 'PDS0002': 'B' * 600}, iso_config=cfgs)
            del cfgs['62']['field_processor']          # DE62 is plain text in this configuration: carriers are 48, 123, 124, 125
            carriers = [48, 123, 124, 125]
        ns = [sym_int('len_%s' % t, 0, 992) for t in tags]
        vals = [Source('pds' + t, 't', n).rope() if not (isinstance(n, int) and n == 0) else '' for t, n in zip(tags, ns)]
        order = sorted(range(len(tags)), key=lambda i: tags[i])
        msg = {'MTI': '1240'}
        for t, v in zip(tags, vals):
            msg['PDS' + t] = v
        # independent greedy count over lengths (capacity assumption)
        cur = 0
        ncar = 1
        for i in order:
            add = 7 + ns[i]
            if cur + add > 999:
                ncar += 1
                cur = 0
            cur = cur + add
        assume(ncar <= len(carriers))
        def rp():
            return {'kind': 'pack', 'args': {'tags': list(tags), 'lengths': [ev(n) for n in ns], 'encoding': encoding,
                                            'values': [concretize(v, ev) if isinstance(v, Rope) else v for v in vals], 'cfg': cfgname, 'greedy': greedy}}
        core.set_fallback(rp, 'C12/concretised')
        with guard('_pds_to_de', 'C12/exception', rp):
            outs = iso._pds_to_de(dict(msg))
        # (1) concatenation of carriers == all sub-elements in ascending tag order, tag(4) len(3) value
        tlvs = [cat('t', tags[i], mk('t', [Num(ns[i], 3)]), vals[i]) for i in order]
        req_eq(cat('t', *outs), cat('t', *tlvs), 'carriers do not hold tag(4) length(3) value in ascending tag order', key='C12/layout', replay=rp)
        # (2) at most 999 characters each, none empty, (3) boundaries fall between sub-elements
        sums = [0]
        for i in order:
            sums.append(sums[-1] + 7 + ns[i])
        cum = 0
        for j, o in enumerate(outs):
            L = rlen(o)
            require(L <= 999, 'carrier %d holds more than 999 characters' % (j + 1), key='C12/cap', replay=rp)
            require(L > 0, 'empty carrier', key='C12/cap', replay=rp)
            cum = cum + L
            require(s_or(*[s_eq(cum, s) for s in sums[1:]]), 'a sub-element is split between carriers', key='C12/split', replay=rp)
        require(len(outs) <= len(carriers), 'set that fits the carriers was packed into %d' % len(outs), key='C12/capacity', replay=rp)
        if greedy:
            # C02 (exact layout of the encoded message): a carrier is closed only when the next sub-element does not fit any more
            require(len(outs) == ncar, 'sub-elements that fit %d carrier(s) when packed greedily were packed into %d' % (ncar, len(outs)),
                    key='C02/pds-greedy', replay=rp)
        # (4) through dumps/loads: carriers assigned in ascending element order; decode returns the same set
        try:
            with guard('dumps of a PDS set that fits the carriers', 'C12/encode-refused', rp, allow=(IndexError,)):
                b = iso.dumps(dict(msg), encoding=encoding, iso_config=cfgs)
        except IndexError:
            fail('dumps ran out of carrier elements for a set that fits', key='C12/capacity', replay=rp)
        with guard('loads of the packed message', 'C12/decode', rp):
            d = iso.loads(b, encoding=encoding, iso_config=cfgs)
        for j, o in enumerate(outs):
            req_eq(d.get('DE%d' % carriers[j]), o, 'carrier DE%d does not hold packed string %d' % (carriers[j], j + 1), key='C12/assign', replay=rp)
        for c in carriers[len(outs):]:
            require('DE%d' % c not in d, 'unexpected carrier DE%d' % c, key='C12/assign', replay=rp)
        for t, v in zip(tags, vals):
            got = d.get('PDS' + t)
            require(got is not None, 'PDS%s lost' % t, key='C12/decode', replay=rp)
            req_eq(got, v, 'PDS%s changed' % t, key='C12/decode', replay=rp)
        extra = [k for k in d if k.startswith('PDS') and k[3:] not in tags]
        require(not extra, 'invented sub-elements %s' % extra, key='C12/decode', replay=rp)
        return {'sample': {'lengths': [ev(n) for n in ns], 'carriers': [ev(rlen(o)) for o in outs]}, 'replay': rp()}
    return h


def obligations(tier):
    q = tier == 'quick'
    obs = [
        Ob('pack/2-tags', pack(['0023', '0158']), 120, 'two tags, every pair of value lengths 0..992', _funcs),
        Ob('pack/3-tags', pack(['0158', '0023', '0001']), 300, 'three tags (given out of order), every triple of value lengths 0..992', _funcs),
        Ob('pack/extreme-tags', pack(['9999', '0000', '1000']), 300, 'the lowest and the highest tag (0000, 9999) and one in between, every triple of value lengths 0..992', _funcs),
        Ob('pack/3-tags/cp500', pack(['0105', '0148', '0165'], 'cp500'), 300, 'three tags, cp500', _funcs),
    ]
    obs.append(Ob('pack/6-tags', pack(['0001', '0002', '0003', '0004', '0005', '0006']), 2400,
                  'six tags, lengths 0..992 (up to five carriers; sets needing six are outside by the capacity assumption)', _funcs))
    obs.append(Ob('pack/2-tags/reconfigured-carriers', pack(['0500', '0023'], 'latin_1', 'reconfigured'), 300,
                  'a configuration object that was used once with DE62 as a carrier and then edited in place (DE62 plain): carriers are 48, 123, ...', _funcs))
    obs.append(Ob('pack/3-tags/unordered-configuration-keys', pack(['0500', '0501', '0023'], 'latin_1', 'unordered-keys'), 300,
                  'caller-supplied copy of the packaged configuration whose dictionary keys are in string order (123, 124, 125 before 48, 62)', _funcs))
    obs.append(Ob('pack/3-tags/custom-carriers', pack(['0500', '0501', '0023'], 'latin_1', 'de62-plain'), 300,
                  'caller-supplied configuration in which DE62 is plain text: carriers are 48, 123, 124, 125', _funcs))
    if not q:
        obs.append(Ob('pack/4-tags', pack(['0002', '0003', '0005', '0007']), 900, 'four tags, lengths 0..992', _funcs))
    return obs
