import io
from . import ref


def replay_roundtrip(lengths, blocked, api, records=None):
    from cardutil import mciipm
    recs = records or [ref.content(n, i) for i, n in enumerate(lengths)]
    if api == 'with-close':
        f = io.BytesIO()
        with mciipm.VbsWriter(f, blocked=blocked) as w:
            for r in recs:
                w.write(r)
            w.close()
        if f.tell() != 0:
            return True, 'file left at %d' % f.tell(), 'C03/rewind'
        data = f.getvalue()
    elif api == 'class':
        f = io.BytesIO()
        w = mciipm.VbsWriter(f, blocked=blocked)
        for r in recs:
            w.write(r)
        w.close()
        if f.tell() != 0:
            return True, 'file left at %d' % f.tell(), 'C03/rewind'
        data = f.getvalue()
    elif api == 'func-iter':
        data = mciipm.vbs_list_to_bytes(iter(list(recs)) if len(recs) == 1 else (r for r in recs), blocked=blocked)
    else:
        data = mciipm.vbs_list_to_bytes(recs, blocked=blocked)
        if mciipm.vbs_list_to_bytes(recs, blocked=blocked) != data:
            return True, 'a second call of vbs_list_to_bytes with the same records returns something else', 'C03/second-call'
    E = ref.vbs_ref(recs)
    if blocked:
        prob = ref.blocked_problem(data, E, True)
        if prob:
            return True, prob, 'C03/layout-blocked'
    elif data != E:
        return True, 'unblocked file differs from [len32 body]* 0', 'C03/layout'
    try:
        if api in ('class', 'with-close'):
            rd = mciipm.VbsReader(io.BytesIO(data), blocked=blocked)
            got = [next(rd)] if len(recs) >= 2 else []
            got += list(rd)
        else:
            got = mciipm.vbs_bytes_to_list(data, blocked=blocked)
    except mciipm.MciIpmDataError as e:
        return True, 'reader raised %s' % e, 'C03/read-error'
    if got != recs:
        return True, 'read back %d records (lengths %s), wrote %s' % (len(got), [len(g) for g in got][:5], lengths), 'C03/content'
    return False, 'ok', None


def replay_default_reader(record):
    from cardutil import mciipm
    data = mciipm.vbs_list_to_bytes([record])
    try:
        got = mciipm.vbs_bytes_to_list(data)
    except mciipm.MciIpmDataError as e:
        return True, 'plain VBS data refused: %s' % e, 'C03/default-reader'
    if got != [record]:
        return True, 'read back %d records, first of %d bytes' % (len(got), len(got[0]) if got else 0), 'C03/default-reader'
    return False, 'ok', None


def replay_configured_max(newmax, blocked, length):
    from cardutil import mciipm, config
    old = config.config.get('MAX_VBS_RECORD_LENGTH', 6000)
    config.config['MAX_VBS_RECORD_LENGTH'] = newmax
    try:
        rec = ref.content(length)
        f = io.BytesIO()
        w = mciipm.VbsWriter(f, blocked=blocked)
        w.write(rec)
        w.close()
        try:
            got = list(mciipm.VbsReader(f, blocked=blocked))
        except mciipm.MciIpmDataError as e:
            return True, 'record of %d bytes refused although the configured maximum is %d: %s' % (length, newmax, e), 'C03/configured-max'
    finally:
        config.config['MAX_VBS_RECORD_LENGTH'] = old
    return got != [rec], 'read back %d records' % len(got), 'C03/configured-max'
