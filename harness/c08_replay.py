from . import ref


# a caller-supplied configuration as it was when it was first used ...
PRIOR_BEFORE = {'2': {'field_type': 'LLVAR', 'field_length': 0}, '3': {'field_type': 'LLVAR', 'field_length': 0},
                '14': {'field_type': 'FIXED', 'field_length': 4}, '38': {'field_type': 'FIXED', 'field_length': 6}}


def prior_edit(cfg):
    """... and the in-place edits made before it is used again: an entry replaced, one changed, one deleted, one added"""
    cfg['3'] = {'field_type': 'FIXED', 'field_length': 6}
    cfg['2']['field_type'] = 'LLLVAR'
    del cfg['38']
    cfg['41'] = {'field_type': 'FIXED', 'field_length': 8}


def replay_loads(data, enc, hexbm, cfg=None, prior=False):
    from cardutil import iso8583
    from . import packaged
    if prior:
        import copy
        bitmap_bytes = lambda bits: ref.ref_bitmap(bits, True)
        cfg = copy.deepcopy(PRIOR_BEFORE)
        iso8583.loads(b'1240' + bitmap_bytes([2, 3]) + b'0512345' + b'04abcd', iso_config=cfg)
        iso8583.loads(b'1240' + bitmap_bytes([3, 14]) + b'02xy' + b'2512', iso_config=cfg)
        prior_edit(cfg)
    cfgs = cfg or packaged.bit_config()
    try:
        want, dontcare = ref.ref_decode(data, cfgs, enc, hexbm)
        rej = None
    except ref.RefError as e:
        want, dontcare, rej = None, False, str(e)
    try:
        got = iso8583.loads(data, encoding=enc, hex_bitmap=hexbm, iso_config=cfg)
    except iso8583.Iso8583DataError as e:
        if rej is None and not dontcare:
            return True, 'refused a well-framed message: %s' % e, 'C08/too-strict'
        return False, 'refused (%s)' % (rej or 'numeral'), None
    except Exception as e:
        return False, 'other exception %s (see C07)' % type(e).__name__, None
    if rej is not None:
        return True, 'accepted %r although: %s; result %s' % (data[20 if not hexbm else 36:][:16], rej, {k: got[k] for k in list(got)[:4]}), \
            'C08/misframed/' + rej.split(':')[-1].strip().replace(' ', '-')[:24]
    bad = [k for k in want if k not in got or got[k] != want[k]]
    if bad:
        return True, 'values differ from the strict reading: %s' % bad[:5], 'C08/value'
    return False, 'ok', None
