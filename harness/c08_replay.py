from . import ref


def replay_loads(data, enc, hexbm, cfg=None):
    from cardutil import iso8583
    from . import packaged
    cfgs = cfg or packaged.bit_config()
    try:
        want, dontcare = ref.ref_decode(data, cfgs, enc, hexbm)
        rej = None
    except ref.RefError as e:
        want, dontcare, rej = None, False, str(e)
    try:
        got = iso8583.loads(data, encoding=enc, hex_bitmap=hexbm, iso_config=cfg)
    except iso8583.Iso8583DataError as e:
        if rej is None and not dontcare:
            return True, 'refused a well-framed message: %s' % e, 'C08/too-strict'
        return False, 'refused (%s)' % (rej or 'numeral'), None
    except Exception as e:
        return False, 'other exception %s (see C07)' % type(e).__name__, None
    if rej is not None:
        return True, 'accepted %r although: %s; result %s' % (data[20 if not hexbm else 36:][:16], rej, {k: got[k] for k in list(got)[:4]}), \
            'C08/misframed/' + rej.split(':')[-1].strip().replace(' ', '-')[:24]
    bad = [k for k in want if k not in got or got[k] != want[k]]
    if bad:
        return True, 'values differ from the strict reading: %s' % bad[:5], 'C08/value'
    return False, 'ok', None
