import io
from . import ref
from .c03_replay import replay_roundtrip      # noqa: F401  (vbs_bytes_to_list on blocked data)


def _payload(data):
    out = b''
    for j in range(0, len(data), 1014):
        out += data[j:j + 1014][:1012]
    return out


def replay_reads(FL, reads, data=None):
    from cardutil import mciipm
    data = ref.content(FL) if data is None else data
    P = _payload(data)
    u = mciipm.Unblock1014(io.BytesIO(data))
    pos = 0
    for i, n in enumerate(reads):
        if n is None:
            got = u.read()
            want = P[pos:]
            if got != want:
                return True, 'read() returned %d bytes, %d remain' % (len(got), len(want)), 'C05/readall'
            pos = len(P)
            continue
        if n == 0:
            continue
        got = u.read(n)
        want = P[pos:pos + n]
        if got != want:
            return True, 'read(%d) at payload offset %d returned %d bytes (%s)' % (n, pos, len(got), 'wrong content' if len(got) == len(want) else 'expected %d' % len(want)), 'C05/read'
        pos += len(want)
    return False, 'ok', None


def replay_unblock(data):
    from cardutil import mciipm
    good = len(data) % 1014 == 0 and all(data[j + 1012:j + 1014] == b'@@' for j in range(0, len(data), 1014))
    fo = io.BytesIO()
    try:
        mciipm.unblock_1014(io.BytesIO(data), fo)
    except mciipm.MciIpmDataError:
        return good, 'refused (%s)' % ('well-formed input' if good else 'malformed input'), 'C05/unblock-refuses'
    except Exception as e:
        return True, 'raised %s' % type(e).__name__, 'C05/unblock-exception'
    if not good:
        return True, 'accepted malformed input of %d bytes' % len(data), 'C05/unblock-accepts'
    if fo.getvalue() != _payload(data):
        return True, 'wrong output', 'C05/unblock-output'
    return False, 'ok', None


def replay_inverse(n):
    from cardutil import mciipm
    d = ref.content(n)
    a, b, c = io.BytesIO(d), io.BytesIO(), io.BytesIO()
    mciipm.block_1014(a, b)
    try:
        mciipm.unblock_1014(b, c)
    except mciipm.MciIpmDataError as e:
        return True, 'refused: %s' % e, 'C05/inverse'
    U = c.getvalue()
    bad = U[:n] != d or U[n:].strip(b'@') or len(U) - n >= 1012
    return bool(bad), 'ok' if not bad else 'unblock(block(d)) != d + fill', 'C05/inverse'
