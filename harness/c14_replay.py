def _pvv_ref(ct_hex):
    d = [c for c in ct_hex if c.isdigit()]
    if len(d) < 4:
        d += [str(int(c, 16) - 10) for c in ct_hex if not c.isdigit()]
    return ''.join(d[:4])


def replay_tsp(pin, pan, idx):
    from cardutil import pinblock
    t = pinblock._get_tsp(pan, idx, pin)
    want = pan[-12:-1] + str(idx) + pin[:4]
    return t != want, 'TSP %r, specification gives %r' % (t, want), 'C14/tsp/pin%s' % ('>4' if len(pin) > 4 else '4')


def replay_pvv(pin, pan, idx, key, ct_model, via):
    from cardutil import pinblock
    from cryptography.hazmat.primitives.ciphers import Cipher, modes
    from cryptography.hazmat.decrepit.ciphers import algorithms as d_algorithms
    tsp = pan[-12:-1] + str(idx) + pin[:4]
    e = Cipher(d_algorithms.TripleDES(bytes.fromhex(key)), modes.ECB()).encryptor()
    ct = (e.update(bytes.fromhex(tsp)) + e.finalize()).hex()
    want = _pvv_ref(ct)
    try:
        if via == 'function':
            got = pinblock.calculate_pvv(pin, key, idx, pan)
        else:
            got = pinblock.Iso0TDESPinBlockWithVisaPVV(pin, card_number=pan).to_pvv(key, key_index=idx)
    except Exception as ex:
        return True, 'PIN of %d digits: %s: %s' % (len(pin), type(ex).__name__, ex), 'C14/pvv-exception/pin%s' % ('>4' if len(pin) > 4 else '4')
    if got != want:
        # the solver's ciphertext is a value of the uninterpreted function; with the real cipher the same inputs give another
        # ciphertext, so also run the decimalisation of the real function on the model ciphertext
        return True, 'PVV %r, specification gives %r (ciphertext %s)' % (got, want, ct), 'C14/pvv-value'
    # decimalisation on the solver's ciphertext pattern, through the real code with a patched cipher
    import unittest.mock as mock

    class _Enc:
        def update(self, data):
            return bytes.fromhex(ct_model)

        def finalize(self):
            return b''

    class _C:
        def __init__(self, *a, **k):
            pass

        def encryptor(self):
            return _Enc()
    with mock.patch.object(pinblock, 'Cipher', _C):
        try:
            got2 = pinblock.calculate_pvv(pin[:4], key, idx, pan)
        except Exception as ex:
            return True, 'decimalisation of %s raised %s' % (ct_model, type(ex).__name__), 'C14/pvv-value'
    if got2 != _pvv_ref(ct_model):
        return True, 'ciphertext %s decimalised to %r, specification gives %r' % (ct_model, got2, _pvv_ref(ct_model)), 'C14/pvv-value'
    return False, 'ok', None


def replay_zmk(parts, master=None, kcvkeys=None):
    from cardutil import key
    from cryptography.hazmat.primitives.ciphers import Cipher, modes
    from cryptography.hazmat.decrepit.ciphers import algorithms as d_algorithms
    x = 0
    for p in parts:
        x ^= int(p, 16)
    want = '%0*x' % (max(len(p) for p in parts), x)
    clear, kcv = key.get_zone_master_key(*parts)
    if clear != want:
        return True, 'combined key %s, XOR is %s' % (clear, want), 'C14/zmk-xor'
    if key.get_zone_master_key(*reversed(parts))[0] != clear:
        return True, 'order dependent', 'C14/zmk-order'
    if key.get_zone_master_key(*(list(parts) + [parts[0], parts[0]]))[0] != clear:
        return True, 'repeated component does not cancel', 'C14/zmk-cancel'
    e = Cipher(d_algorithms.TripleDES(bytes.fromhex(want)), modes.ECB()).encryptor()
    k0 = (e.update(bytes(8)) + e.finalize()).hex()
    if kcv != k0[:6]:
        return True, 'kcv %s, E(key,0) starts %s' % (kcv, k0[:6]), 'C14/kcv'
    for kk in kcvkeys or []:
        e = Cipher(d_algorithms.TripleDES(bytes.fromhex(kk)), modes.ECB()).encryptor()
        want_k = (e.update(bytes(8)) + e.finalize()).hex()[:6]
        got_k = key.calculate_kcv(bytes.fromhex(kk))
        if got_k != want_k:
            return True, 'KCV of %d-byte key %s is %s, E(key, zeros) starts %s' % (len(kk) // 2, kk, got_k, want_k), 'C14/kcv'
    k0 = k0 + k0
    for n in (1, 4, 5, 7, 16, 17, 24, 32):
        if key.calculate_kcv(bytes.fromhex(want), n) != k0[:n]:
            return True, 'calculate_kcv(kvc_length=%d) = %r, E(key,0) starts %r' % (n, key.calculate_kcv(bytes.fromhex(want), n), k0[:n]), 'C14/kcv'
    master = master or '0123456789abcdeffedcba9876543210'
    enc, kcv2 = key.get_enc_zone_master_key(master, *parts)
    e = Cipher(d_algorithms.TripleDES(bytes.fromhex(master)), modes.ECB()).encryptor()
    wantenc = (e.update(bytes.fromhex(want)) + e.finalize()).hex()
    if enc != wantenc or kcv2 != kcv:
        return True, 'encrypted zone key differs', 'C14/enc-zmk'
    return False, 'ok', None


def replay_two_cards(pin, pans, key, objects=False):
    from cardutil import pinblock
    from cryptography.hazmat.primitives.ciphers import Cipher, modes
    from cryptography.hazmat.decrepit.ciphers import algorithms as d_algorithms
    try:
        if objects:
            got = [pinblock.Iso0TDESPinBlockWithVisaPVV(pin, card_number=p).to_pvv(key) for p in pans]
        else:
            obj = pinblock.Iso4AESPinBlockWithVisaPVV(pin)
            got = [obj.to_pvv(key, card_number=p) for p in pans]
    except Exception as ex:
        return True, '%s: %s' % (type(ex).__name__, ex), 'C14/pvv-exception/pin4'
    for k, (g, pan) in enumerate(zip(got, pans)):
        tsp = pan[-12:-1] + '1' + pin[:4]
        e = Cipher(d_algorithms.TripleDES(bytes.fromhex(key)), modes.ECB()).encryptor()
        want = _pvv_ref((e.update(bytes.fromhex(tsp)) + e.finalize()).hex())
        if g != want:
            return True, 'call %d (card %s) returned %r, the PVV of that card is %r' % (k + 1, pan, g, want), 'C14/pvv-second-card'
    return False, 'ok', None
