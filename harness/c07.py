"""C07 -- decoding never hangs or crashes: any bytes give a result or the library error"""
import ast
import binascii
import os
from vsym.runner import Ob
from vsym import loader
from .common import *
from .isomsg import *
from .decode import *

PROPERTY = 'C07'
DEBUG_LOG = ['file/ipm/blocked', 'msg/single/latin_1/bin', 'file/vbs/blocked']      # obligations that are also explored with debug logging switched on
PYTHON_O = ['msg/single/latin_1/bin', 'msg/pds-carrier/DE48', 'msg/icc/DE55', 'file/ipm/blocked']      # obligations that are also explored with the modules compiled as under python -O
ASSUMPTIONS = [
    'message = (concrete or opaque) MTI + bitmap from a family (configured singles/pairs, unconfigured bits; hex bitmap either valid or 32 opaque '
    'characters for which unhexlify raises binascii.Error, its documented behaviour) + opaque data of symbolic length',
    'every numeral parsed is a nondeterministic int() outcome; text decoding under ascii may nondeterministically raise UnicodeDecodeError per opaque piece',
    'loops carry a fuel budget proportional to the input size; exhaustion is reported as non-termination and must reproduce as a hang under a watchdog',
    'files are opaque byte sources of symbolic length; each 4-byte length prefix read is a fresh 32-bit value',
    'the command line tools catch exactly MciIpmDataError (checked from their AST on every run)',
]


def _funcs():
    i = M().iso8583
    m = M().mciipm
    return [i.loads, i._iso8583_to_dict, i._iso8583_to_field, i._string_to_pytype, i._pds_to_dict, i._icc_to_dict, i._get_de43_fields,
            m.VbsReader.__next__, m.IpmReader.__next__, m.Unblock1014.read]


def total(pick, enc, hexbm, nmax, mti_opaque=False, unconfigured=None, bad_hex=False, cfgmode=None):
    def h():
        core.FUEL.set(nmax + 12)
        iso = M().iso8583
        bits = list(pick())
        N = sym_int('data_len', 0, nmax)
        src = Source('data', 'b', N)
        data = src.rope() if not (isinstance(N, int) and N == 0) else b''
        bm = bitmap_bytes(bits + ([unconfigured] if unconfigured else []))
        if hexbm:
            bm = binascii.hexlify(bm)
        if bad_hex:
            bmsrc = Source('hexbitmap', 'b', 32)
            bm = bmsrc.rope()
        if mti_opaque:
            msrc = Source('mti', 'b', 4)
            head = msrc.rope()
        else:
            head = '1240'.encode(enc if enc != 'ascii' else 'latin_1')
        msg = cat('b', head, bm, data)

        def rp():
            return {'kind': 'loads', 'args': {'data': witness_bytes(msg), 'enc': enc, 'hexbm': hexbm, 'cfgmode': cfgmode}}
        core.set_fallback(rp, 'C07/concretised')
        from .c07_replay import caller_config
        cfg = caller_config(iso, cfgmode)
        with guard('loads', 'C07/exception', rp, allow=(iso.Iso8583DataError,), hang_key='C07/hang'):
            try:
                iso.loads(msg, encoding=enc, hex_bitmap=hexbm, iso_config=cfg)
                res = 'dict'
            except iso.Iso8583DataError:
                res = 'Iso8583DataError'
            except core.Unsupported:
                if bad_hex:
                    # opaque characters that happen to be valid hex: the bitmap bits would be content; valid bitmaps are the families above
                    raise core.PathAbort('opaque but valid hex bitmap')
                raise
        return {'sample': {'bits': bits, 'len': ev(N), 'result': res}, 'replay': rp()}
    return h


def short(enc, hexbm):
    def h():
        iso = M().iso8583
        N = sym_int('msg_len', 0, 45)
        src = Source('msg', 'b', N)
        msg = src.rope() if not (isinstance(N, int) and N == 0) else b''

        def rp():
            return {'kind': 'loads', 'args': {'data': witness_bytes(msg), 'enc': enc, 'hexbm': hexbm}}
        core.set_fallback(rp, 'C07/concretised')
        with guard('loads', 'C07/exception', rp, allow=(iso.Iso8583DataError,), hang_key='C07/hang'):
            try:
                iso.loads(msg, encoding=enc, hex_bitmap=hexbm)
                res = 'dict'
            except iso.Iso8583DataError:
                res = 'Iso8583DataError'
            except core.Unsupported:
                # a fully opaque message long enough to carry a bitmap: the bitmap bits are content; covered by the families above
                raise core.PathAbort('opaque bitmap')
        return {'sample': {'len': ev(N), 'result': res}, 'replay': rp()}
    return h


def pds_walker(nmax):
    def h():
        core.FUEL.set(nmax + 6)
        iso = M().iso8583
        N = sym_int('field_len', 0, nmax)
        src = Source('pdsfield', 't', N)
        field = src.rope() if not (isinstance(N, int) and N == 0) else ''

        def rp():
            return {'kind': 'pds', 'args': {'field': concretize(field, ev) if isinstance(field, Rope) else field}}
        core.set_fallback(rp, 'C07/concretised')
        with guard('_pds_to_dict', 'C07/pds-exception', rp, allow=(iso.Iso8583DataError,), hang_key='C07/pds-hang'):
            try:
                iso._pds_to_dict(field)
                res = 'dict'
            except iso.Iso8583DataError:
                res = 'Iso8583DataError'
        return {'sample': {'len': ev(N), 'result': res}, 'replay': rp()}
    return h


def icc_walker(nmax):
    def h():
        core.FUEL.set(nmax + 6)
        iso = M().iso8583
        N = sym_int('field_len', 0, nmax)
        src = Source('iccfield', 'b', N)
        field = src.rope() if not (isinstance(N, int) and N == 0) else b''

        def rp():
            return {'kind': 'icc', 'args': {'field': concretize(field, ev) if isinstance(field, Rope) else field}}
        core.set_fallback(rp, 'C07/concretised')
        with guard('_icc_to_dict', 'C07/icc-exception', rp, allow=(iso.Iso8583DataError,), hang_key='C07/icc-hang'):
            try:
                got = iso._icc_to_dict(field)
                res = 'dict'
            except iso.Iso8583DataError:
                got = None
                res = 'Iso8583DataError'
        # compare with the independent TLV reading over the same abstract bytes (C02 cross-check)
        try:
            want = icc_strict(field)
            rej = None
        except Reject as r:
            want, rej = None, r.why
        if got is not None:
            require(rej is None, '_icc_to_dict accepted a field the reference TLV reader refuses: %s' % rej, key='C07/icc-accepts', replay=rp)
            for tag, val in want:
                key = cat('t', 'TAG', iso.binascii.b2a_hex(tag).upper().decode())
                found = [k for k in got if isinstance(k, (str, Rope)) and rope.rope_eq(k, key)]
                require(len(found) >= 1, 'TAG entry missing', key='C07/icc-value', replay=rp)
        else:
            require(rej is not None, '_icc_to_dict refused a field the reference TLV reader accepts', key='C07/icc-refuses', replay=rp)
        return {'sample': {'len': ev(N), 'result': res}, 'replay': rp()}
    return h


def file_level(kind, blocked, fmax, nrec):
    def h():
        core.FUEL.set(fmax // 1012 + 8)
        m = M().mciipm
        iso = M().iso8583
        FL = sym_int('file_len', 0, fmax)
        src = Source('file', 'b', FL)
        f = RopeFile(src.rope() if not (isinstance(FL, int) and FL == 0) else b'')

        def rp():
            return {'kind': 'file', 'args': {'data': concretize(src.rope(), ev), 'reader': kind, 'blocked': blocked}}
        core.set_fallback(rp, 'C07/concretised')
        rd = (m.VbsReader if kind == 'vbs' else m.IpmReader)(f, blocked=blocked)
        n = 0
        end = None
        with guard('%s reader' % kind, 'C07/file-exception', rp, allow=(m.MciIpmDataError, StopIteration), hang_key='C07/file-hang'):
            while n <= nrec:
                core.FUEL.set(fmax // 1012 + 8)
                try:
                    next(rd)
                    n += 1
                except StopIteration:
                    end = 'stop'
                    break
                except m.MciIpmDataError:
                    end = 'error'
                    break
                except core.Unsupported:
                    raise core.PathAbort('record body is an opaque message with an opaque bitmap: covered at message level')
        return {'sample': {'file_len': ev(FL), 'records': n, 'end': end}, 'replay': rp()}
    return h


HEXBM_FAMILY = [
    b'\t\t' + b'0' * 30, b'  ' * 16, b'c0' + b'\n\n' + b'0' * 28, b'C000000000000000' + b'0' * 16, b'c0000000 0000000' + b'0' * 16,
    b'c' + b' ' + b'0' * 30, b'0x' + b'0' * 30, b'c0' + b'\x00' * 30, b'\xb2' * 32, b'c0' + b'0' * 29 + b'\r', b'+0' * 16, b'c0_0' + b'0' * 28,
]


def hex_bitmap_family(enc):
    """concrete corner cases of the 32-character hex bitmap (whitespace pairs, upper case, prefixes, control and non-ASCII bytes)"""
    def h():
        iso = M().iso8583
        bm = choose('bitmap', HEXBM_FAMILY)
        tail = choose('tail', [b'', b'164444555566667777', b'0512345'])
        data = '1144'.encode(enc) + bm + tail
        rp = {'kind': 'loads', 'args': {'data': data, 'enc': enc, 'hexbm': True}}
        core.set_fallback(rp, 'C07/concretised')
        with guard('loads', 'C07/exception', rp, allow=(iso.Iso8583DataError,), hang_key='C07/hang'):
            try:
                iso.loads(data, encoding=enc, hex_bitmap=True)
                res = 'dict'
            except iso.Iso8583DataError:
                res = 'Iso8583DataError'
        return {'sample': {'bitmap': bm.decode('latin_1'), 'result': res}, 'replay': rp}
    return h


DE43_ODD = [
    'A' * 60, 'INTERNATIONALSUPERMARKETHOLDINGS SYDNEYAU', 'NO BACKSLASHES HERE AT ALL, JUST A LONG MERCHANT NAME AND A TOWN 3103 VICAUS',
    'ACME STORE\\12 HIGH ST\\' + 'Q' * 58 + '\\31 VIC', 'A\\B\\C\\', '\\\\\\\\', ' ' * 99, 'X' * 99, 'WORD ' * 19 + 'END',
    'ACME STORE\\12 HIGH ST\\MELBOURNE\\3103      VICAUS',
]
BIT1_CLEAR = [[], [9], [10, 71], [24], [9, 63], [71], [128 - 1]]


def de43_family(enc):
    """merchant name/location values that do not follow the name\\address\\suburb\\postcode layout (and one that does): decoding returns or
    raises the library error - within the watchdog (the configured regular expression runs natively)"""
    def h():
        iso = M().iso8583
        v = choose('de43', DE43_ODD)
        other = choose('other', [None, 49])
        msg = {'MTI': '1240', 'DE43': v[:99]}
        if other:
            msg['DE49'] = '036'
        data = iso.dumps(dict(msg), encoding=enc)
        rp = {'kind': 'loads', 'args': {'data': data, 'enc': enc, 'hexbm': False}}
        core.set_fallback(rp, 'C07/concretised')
        try:
            with guard('loads', 'C07/exception', rp, allow=(iso.Iso8583DataError,), hang_key='C07/hang'):
                try:
                    native_watchdog(lambda: iso.loads(data, encoding=enc), 3)
                    res = 'dict'
                except iso.Iso8583DataError:
                    res = 'Iso8583DataError'
        except TimeoutError:
            fail('loads did not return within 3 s on a DE43 value of %d characters' % len(v[:99]), key='C07/hang', replay=rp)
        return {'sample': {'DE43': v[:30], 'result': res}, 'replay': rp}
    return h


def bit1_clear_family(enc, hexbm):
    """incoming bitmaps with the secondary-bitmap flag clear, some with no element at all in the first eight bits"""
    import binascii as _b

    def h():
        iso = M().iso8583
        bits = choose('bits', BIT1_CLEAR)
        tail = choose('tail', [b'', '12345678'.encode(enc), '000000123456'.encode(enc), 'ABCDEFGHIJ0123456789'.encode(enc)])
        bm = bitmap_bytes(bits, bit1=False)
        data = '1240'.encode(enc) + (_b.hexlify(bm) if hexbm else bm) + tail
        rp = {'kind': 'loads', 'args': {'data': data, 'enc': enc, 'hexbm': hexbm}}
        core.set_fallback(rp, 'C07/concretised')
        with guard('loads', 'C07/exception', rp, allow=(iso.Iso8583DataError,), hang_key='C07/hang'):
            try:
                iso.loads(data, encoding=enc, hex_bitmap=hexbm)
                res = 'dict'
            except iso.Iso8583DataError:
                res = 'Iso8583DataError'
        return {'sample': {'bits': bits, 'result': res}, 'replay': rp}
    return h


def hex_prefixes(enc):
    """every prefix (length 0..len) of concrete well-formed hex-bitmap messages"""
    import binascii as _b
    base = ['1644'.encode(enc) + _b.hexlify(bitmap_bytes([24, 72])) + '200'.encode(enc) + '005HELLO'.encode(enc),
            '1240'.encode(enc) + _b.hexlify(bitmap_bytes([3])) + '123456'.encode(enc)]

    def h():
        iso = M().iso8583
        msg = choose('msg', base)
        n = choose('cut', list(range(0, len(msg) + 1)))
        data = msg[:n]
        rp = {'kind': 'loads', 'args': {'data': data, 'enc': enc, 'hexbm': True}}
        core.set_fallback(rp, 'C07/concretised')
        with guard('loads', 'C07/exception', rp, allow=(iso.Iso8583DataError,), hang_key='C07/hang'):
            try:
                iso.loads(data, encoding=enc, hex_bitmap=True)
                res = 'dict'
            except iso.Iso8583DataError:
                res = 'Iso8583DataError'
        return {'sample': {'cut': n, 'result': res}, 'replay': rp}
    return h


def tools_catch_only_library_error():
    """syntactic side condition: the CLI wrappers catch exactly MciIpmDataError"""
    out = {}
    for rel in ('cardutil/cli/mci_ipm_to_csv.py', 'cardutil/cli/mideu.py', 'cardutil/cli/paramconv.py'):
        tree = ast.parse(open(os.path.join(loader.REPO, rel)).read())
        names = []
        for node in ast.walk(tree):
            if isinstance(node, ast.ExceptHandler):
                names.append(ast.unparse(node.type) if node.type is not None else 'BaseException')
        out[rel] = names
    return out


DIAG_BITMAPS = [([2], True), ([2, 3, 4, 12, 22, 24, 26, 31, 33, 42, 48, 49, 63, 71, 94], True), ([3, 7], True), ([2], False), ([127, 128], True), ([], True)]


def cli_diagnostics(short):
    """what mci_ipm_to_csv does after it caught the library error: ipm_info on the file, then print_check_details on its answer -- neither
    may raise, whatever the file holds"""
    def h():
        import contextlib
        import io
        core.FUEL.set(40)
        m = M().mciipm
        cli = M().mci_ipm_to_csv
        if short:
            FL = sym_int('file_len', 0, 23)
            src = Source('file', 'b', FL)
            data = src.rope() if not (isinstance(FL, int) and FL == 0) else b''
        else:
            L = sym_int('first_len', 0, 0xFFFFFFFF)
            mti = Source('mti', 'b', 4)
            bits, bit1 = choose('bitmap', DIAG_BITMAPS)
            RL = sym_int('rest_len', 0, 2600)
            rest = Source('rest', 'b', RL)
            data = cat('b', mk('b', [U32(L, '>I')]), mti.rope(), bitmap_bytes(bits, bit1), rest.rope() if not (isinstance(RL, int) and RL == 0) else b'')

        def rp():
            return {'kind': 'diagnostics', 'args': {'data': concretize(data, ev) if isinstance(data, Rope) else data}}
        core.set_fallback(rp, 'C07/concretised')
        with guard('ipm_info + print_check_details', 'C07/cli-diagnostics', rp):
            info = m.ipm_info(RopeFile(data))
            with contextlib.redirect_stdout(io.StringIO()):
                cli.print_check_details(info)
        return {'sample': {'short': short, 'valid': bool(is_true(info.get('isValidIPM')))}, 'replay': rp()}
    return h


def cli_syntax():
    def h():
        caught = tools_catch_only_library_error()
        for rel, names in caught.items():
            require(all(n in ('MciIpmDataError', 'CardutilError') for n in names) and names,
                    '%s catches %s' % (rel, names), key='C07/cli', replay={'kind': 'noop', 'args': {}})
        return {'sample': caught}
    return h


def obligations(tier):
    q = tier == 'quick'
    singles, pairs, triples = bit_families(q)
    cfg = bit_config()
    plain = [b for b in singles if cfg[str(b[0])].get('field_processor') not in ('PDS', 'ICC')]
    nmax = 20 if q else 36
    obs = []
    for enc, hexbm in (('latin_1', False), ('cp500', True), ('ascii', False)) + ((('cp037', False),) if not q else ()):
        tag = '%s/%s' % (enc, 'hex' if hexbm else 'bin')
        obs.append(Ob('msg/single/' + tag, total(lambda: choose('bits', plain), enc, hexbm, nmax), 600,
                      'each configured non-PDS/ICC element alone, data 0..%d bytes' % nmax, _funcs, 'bitmaps outside the family; data longer than the bound'))
        obs.append(Ob('msg/pairs/' + tag, total(lambda: choose('bits', pairs + triples), enc, hexbm, nmax), 900,
                      '%d pairs/triples, data 0..%d' % (len(pairs + triples), nmax), _funcs))
    obs.append(Ob('msg/opaque-mti/latin_1', total(lambda: [2], 'latin_1', False, 6, mti_opaque=True), 120, 'MTI = 4 opaque bytes', _funcs))
    obs.append(Ob('msg/opaque-mti/ascii', total(lambda: [2], 'ascii', False, 6, mti_opaque=True), 120, 'MTI = 4 opaque bytes, ascii', _funcs))
    obs.append(Ob('msg/unconfigured-bit', total(lambda: choose('bits', [[2], []]), 'latin_1', False, 8,
                                                unconfigured=None), 60, 'placeholder', _funcs))
    obs[-1] = Ob('msg/unconfigured-bit', total(lambda: [2], 'latin_1', False, 8, unconfigured=7), 60, 'bit 7 (no configuration) set', _funcs)
    obs.append(Ob('msg/edited-config', total(lambda: choose('bits', [[2, 38], [3, 38], [38], [2, 3, 41], [14, 38], [3, 14, 38], [2, 3]]), 'latin_1', False, 16, cfgmode='edited'), 300,
                  'a caller configuration that was used for two decodes and then edited in place (DE38 deleted, DE3 replaced, DE2 changed, DE41 added): '
                  'a bit that is no longer configured is the library error like any other unconfigured bit', _funcs))
    obs.append(Ob('msg/pan-processor-config', total(lambda: choose('bits', [[2], [2, 3]]), 'latin_1', False, 24, cfgmode='pan'), 300,
                  'caller configuration with the documented PAN processor on DE2: every declared length 0..99, card numbers shorter than ten characters included', _funcs))
    obs.append(Ob('msg/non-hex-bitmap', total(lambda: [2], 'latin_1', True, 6, bad_hex=True), 60, 'hex bitmap = 32 opaque characters', _funcs))
    for enc, hexbm in (('latin_1', False), ('latin_1', True), ('ascii', False)):
        obs.append(Ob('msg/short/%s/%s' % (enc, 'hex' if hexbm else 'bin'), short(enc, hexbm), 120, 'whole message opaque, total length 0..45', _funcs))
    for c in (48, 62) if q else PDS_CARRIERS:
        obs.append(Ob('msg/pds-carrier/DE%d' % c, total(lambda c=c: [c], 'latin_1', False, 3 + (18 if q else 26)), 900,
                      'PDS carrier DE%d alone, data 0..%d' % (c, 3 + (18 if q else 26)), _funcs))
    obs.append(Ob('msg/icc/DE55', total(lambda: [55], 'latin_1', False, 3 + (5 if q else 7)), 900, 'ICC element alone, data 0..%d' % (3 + (5 if q else 7)), _funcs))
    obs.append(Ob('walker/pds', pds_walker(24 if q else 34), 900, '_pds_to_dict on opaque text of length 0..%d' % (24 if q else 34), _funcs))
    obs.append(Ob('walker/icc', icc_walker(6 if q else 8), 1200, '_icc_to_dict on opaque bytes of length 0..%d, every byte value (peek table), '
                  'cross-checked against an independent TLV reader' % (6 if q else 8), _funcs))
    for kind in ('vbs', 'ipm'):
        for blocked in (False, True):
            fmax = 2 * 1014 + 30 if blocked else 60
            obs.append(Ob('file/%s/%s' % (kind, 'blocked' if blocked else 'unblocked'), file_level(kind, blocked, fmax, 3), 600,
                          'opaque file of length 0..%d, arbitrary 32-bit length prefixes, up to 3 records' % fmax, _funcs))
    for enc in ('latin_1', 'cp500'):
        obs.append(Ob('msg/hex-bitmap-family/%s' % enc, hex_bitmap_family(enc), 60,
                      'hex bitmap from a concrete family of malformed renderings x three message tails', _funcs))
    for enc in ('latin_1', 'cp500'):
        obs.append(Ob('msg/hex-prefixes/%s' % enc, hex_prefixes(enc), 60, 'every prefix of two concrete hex-bitmap messages', _funcs))
    for enc in ('latin_1', 'cp500'):
        obs.append(Ob('msg/de43-family/%s' % enc, de43_family(enc), 120,
                      'ten merchant name/location values, nine of which do not follow the configured layout (long unbroken runs, no separators, only separators)', _funcs))
        obs.append(Ob('msg/bit1-clear-family/%s' % enc, bit1_clear_family(enc, enc == 'cp500'), 120,
                      'bitmaps %s with the secondary-bitmap flag clear x four data tails' % BIT1_CLEAR, _funcs))
    obs.append(Ob('cli/diagnostics', cli_diagnostics(False), 300, 'ipm_info + print_check_details (what mci_ipm_to_csv runs after catching the library '
                  'error): first length any 32-bit value, opaque MTI, bitmap from a family of 6, 0..2600 opaque bytes after it', _funcs))
    obs.append(Ob('cli/diagnostics-short', cli_diagnostics(True), 60, 'the same on files of 0..23 opaque bytes', _funcs))
    obs.append(Ob('cli/catch-clauses', cli_syntax(), 10, 'AST of the three command line wrappers', lambda: []))
    return obs
