import io
from . import ref
from .c05_replay import replay_reads      # noqa: F401
from .c03_replay import replay_configured_max      # noqa: F401  (the complete-file case under a raised maximum is the C03 obligation)


def _watchdog(fn, secs=5):
    import signal

    def handler(signum, frame):
        raise TimeoutError('watchdog')
    old = signal.signal(signal.SIGALRM, handler)
    signal.alarm(secs)
    try:
        return fn()
    finally:
        signal.alarm(0)
        signal.signal(signal.SIGALRM, old)


def replay_truncate(kind, blocked, lengths, t, items=None, api='class'):
    try:
        return _watchdog(lambda: _replay_truncate(kind, blocked, lengths, t, items, api))
    except TimeoutError:
        return True, 'cut at %d: the reader did not return within 5 s' % t, 'C09/hang'


def _replay_truncate(kind, blocked, lengths, t, items=None, api='class'):
    from cardutil import mciipm
    f = io.BytesIO()
    if kind == 'vbs':
        items = items or [ref.content(n, i) for i, n in enumerate(lengths)]
        w = mciipm.VbsWriter(f, blocked=blocked)
    else:
        items = [{'MTI': '1144', 'DE2': v} for v in items] if items else \
            [{'MTI': '1144', 'DE2': ''.join(chr(65 + (j + i) % 26) for j in range(n))} for i, n in enumerate(lengths)]
        w = mciipm.IpmWriter(f, blocked=blocked)
    for it in items:
        w.write(it)
    w.close()
    data = f.getvalue()[:t]
    surv = (t // 1014) * 1012 + min(t % 1014, 1012) if blocked else t
    # records wholly contained, by an independent reading of the full stream
    full = f.getvalue()
    stream = ref.unblock_ref(full)[0] if blocked else full
    recs, _ = ref.vbs_parse_ref(stream)
    pos = 0
    complete = 0
    for r in recs:
        pos += 4 + len(r)
        if pos <= surv:
            complete += 1
    if api == 'func':
        try:
            got = mciipm.vbs_bytes_to_list(data, blocked=True) if blocked else mciipm.vbs_bytes_to_list(data)
        except mciipm.MciIpmDataError:
            return False, 'refused', None
        except Exception as e:
            return True, 'vbs_bytes_to_list raised %s' % type(e).__name__, 'C09/exception'
        if got != items[:complete]:
            return True, 'cut at %d of %d: vbs_bytes_to_list returned %d records (lengths %s), %d are complete' % (
                t, len(full), len(got), [len(g) for g in got][:4], complete), 'C09/records'
        return False, 'ok', None
    rd = (mciipm.VbsReader if kind == 'vbs' else mciipm.IpmReader)(io.BytesIO(data), blocked=blocked)
    got = []
    try:
        for rec in rd:
            got.append(rec)
    except mciipm.MciIpmDataError:
        pass
    except Exception as e:
        return True, 'reader raised %s' % type(e).__name__, 'C09/exception'
    want = items[:complete]
    if kind == 'ipm':
        got = [{k: g.get(k) for k in ('MTI', 'DE2')} for g in got]
    if got != want:
        return True, 'cut at %d of %d: delivered %d records, %d are complete' % (t, len(full), len(got), complete), 'C09/records'
    return False, 'ok', None
