import io
from . import ref
from .c01_replay import _cfg


def replay_roundtrip(msgs, enc, blocked, cfg, many=None, closes=1, raise_max=None):
    from cardutil import mciipm          # (imported before the configuration is touched: the application changes it at run time)
    from cardutil import config as _config
    old = _config.config.get('MAX_VBS_RECORD_LENGTH')
    if raise_max:
        _config.config['MAX_VBS_RECORD_LENGTH'] = raise_max
    try:
        return _replay_roundtrip(msgs, enc, blocked, cfg, many, closes)
    finally:
        if old is None:
            _config.config.pop('MAX_VBS_RECORD_LENGTH', None)
        else:
            _config.config['MAX_VBS_RECORD_LENGTH'] = old


def _replay_roundtrip(msgs, enc, blocked, cfg, many=None, closes=1):
    from cardutil import mciipm
    cfgs = _cfg(cfg)
    ms = [ref.concrete_msg(m, cfgs) for m in msgs]
    f = io.BytesIO()
    kw = {'iso_config': cfgs} if isinstance(cfg, dict) else {}
    try:
        w = mciipm.IpmWriter(f, encoding=enc, blocked=blocked, **kw)
        if many == 'list':
            w.write_many([dict(m) for m in ms])
        elif many == 'generator':
            w.write_many(dict(m) for m in ms)
        elif many == 'batch-then-write':
            w.write_many([dict(ms[0])])
            for m in ms[1:]:
                w.write(dict(m))
        else:
            for m in ms:
                w.write(dict(m))
        for _ in range(closes):
            w.close()
        rd = mciipm.IpmReader(f, encoding=enc, blocked=blocked, **kw)
        got = [next(rd)] if len(ms) >= 2 else []
        got += list(rd)
    except Exception as e:
        return True, 'raised %s: %s' % (type(e).__name__, e), 'C06/exception'
    if len(got) != len(ms):
        return True, 'read %d messages, wrote %d' % (len(got), len(ms)), 'C06/count'
    for i, (g, m) in enumerate(zip(got, ms)):
        for k, v in m.items():
            if g.get(k) != v or type(g.get(k)) is not type(v):
                return True, 'record %d: %s came back as %r' % (i + 1, k, str(g.get(k))[:30]), 'C06/value'
    return False, 'ok', None


def _msg(who, i):
    if who == 0:
        return {'MTI': '1240', 'DE2': 'A%d' % i * 5, 'DE4': 100 + i}
    return {'MTI': '1240', 'DE3': '00%d000' % (i % 10), 'DE63': 'B%d' % i * 7}


def replay_writers(sched, blocked):
    from cardutil import mciipm
    fa, fb = io.BytesIO(), io.BytesIO()
    ws = [mciipm.IpmWriter(fa, encoding='latin_1', blocked=blocked), mciipm.IpmWriter(fb, encoding='cp500', blocked=blocked)]
    msgs = {0: [], 1: []}
    for i, who in enumerate(sched):
        m = _msg(who, i)
        msgs[who].append(m)
        ws[who].write(dict(m))
    for w in ws:
        w.close()
    for who, (f, enc) in enumerate(((fa, 'latin_1'), (fb, 'cp500'))):
        g = io.BytesIO()
        w = mciipm.IpmWriter(g, encoding=enc, blocked=blocked)
        for m in msgs[who]:
            w.write(dict(m))
        w.close()
        if g.getvalue() != f.getvalue():
            return True, 'writer %d file differs from its isolated run' % who, 'C06/isolation'
    return False, 'ok', None


def replay_readers(sched, blocked):
    from cardutil import mciipm
    files = []
    nrec = (2, 3)
    for who, enc in enumerate(('latin_1', 'cp500')):
        f = io.BytesIO()
        w = mciipm.IpmWriter(f, encoding=enc, blocked=blocked)
        for i in range(nrec[who]):
            w.write(_msg(who, i))
        w.close()
        files.append(f.getvalue())
    rs = [mciipm.IpmReader(io.BytesIO(files[0]), encoding='latin_1', blocked=blocked),
          mciipm.IpmReader(io.BytesIO(files[1]), encoding='cp500', blocked=blocked)]
    count = [0, 0]
    done = [False, False]
    for who in sched:
        if done[who]:
            continue
        try:
            next(rs[who])
            count[who] += 1
        except StopIteration:
            done[who] = True
        for x in (0, 1):
            if rs[x].record_number != 1 + count[x]:
                return True, 'reader %d record_number %r after %d reads' % (x, rs[x].record_number, count[x]), 'C06/isolation'
    return False, 'ok', None


def replay_configs(order, blocked, lens):
    import copy
    from cardutil import mciipm
    from cardutil.config import config
    from . import packaged
    cfgB = packaged.bit_config_copy()
    del cfgB['48']['field_processor']
    nA, nB, nT = lens
    msgA = {'MTI': '1240', 'DE2': '4444555566667777', 'PDS0023': 'a' * nA}
    msgB = {'MTI': '1240', 'DE48': 'T' * nT, 'PDS0023': 'b' * nB}
    fa, fb = io.BytesIO(), io.BytesIO()
    wa = mciipm.IpmWriter(fa, blocked=blocked)
    wb = mciipm.IpmWriter(fb, blocked=blocked, iso_config=cfgB)
    for who in order.split('-then-'):
        (wa if who == 'A' else wb).write(dict(msgA if who == 'A' else msgB))
    wa.close()
    wb.close()
    da = list(mciipm.IpmReader(fa, blocked=blocked))
    db = list(mciipm.IpmReader(fb, blocked=blocked, iso_config=cfgB))
    if da[0].get('PDS0023', '') != msgA['PDS0023']:
        return True, 'packaged configuration: PDS0023 came back as %r' % da[0].get('PDS0023'), 'C06/config-isolation'
    if db[0].get('DE48') != msgB['DE48'] or db[0].get('PDS0023', '') != msgB['PDS0023']:
        return True, 'custom configuration: DE48=%r PDS0023=%r' % (db[0].get('DE48')[:20], db[0].get('PDS0023')), 'C06/config-isolation'
    return False, 'ok', None
