import contextlib
import io
import struct
from . import ref


def _bad(kind, enc):
    def e(s):
        try:
            return s.encode(enc)
        except UnicodeEncodeError:
            return s.encode('latin_1')          # kinds with characters outside the codec are not used under that codec
    bm = ref.ref_bitmap
    return {
        'bad-mti': e('12X0') + bm([2]) + e('0512345'),
        'unknown-bit': e('1240') + bm([2, 7]) + e('0512345'),
        'bad-field-length': e('1240') + bm([2]) + e('XX12345'),
        'bad-field-length-superscript': e('1240') + bm([2]) + e('0\xb212345'),
        'bad-typed-value': e('1240') + bm([4]) + e('00000000ABCD'),
        'bad-pds': e('1240') + bm([48]) + e('0070001XX1'),
        'bad-icc': e('1240') + bm([55]) + e('001') + b'\x9f',
        'short-header': e('1240') + b'\x00\x01',
        'trailing-byte': e('1240') + bm([3]) + e('0000001'),
        'pds-leftover-1': e('1240') + bm([48]) + e('0090001001YZ'),
        'pds-leftover-3': e('1240') + bm([48]) + e('0110001001Y015'),
        'pds-leftover-6': e('1240') + bm([48]) + e('0140001001Y015800'),
        'pds-value-overrun': e('1240') + bm([48]) + e('0090001009AB'),
        'negative-length': e('1240') + bm([2]) + e('-112345'),
        'length-past-end': e('1240') + bm([2]) + e('0912345'),
        'fixed-field-short': e('1240') + bm([3]) + e('00000'),
        'bad-date': e('1240') + bm([12]) + e('991332256199'),
        'unknown-bit-primary-bitmap-only': e('1240') + bm([7], False) + e('0512345'),
        'bad-value-primary-bitmap-only': e('1240') + bm([4], False) + e('00000000ABCD'),
        'unknown-bit-no-low-elements': e('1240') + bm([9 + 2], False) + e('12345678'),
        'undecodable-mti': b'\xff\xfe12' + bm([2]) + e('0512345'),
        'bad-typed-value-long-record': e('1240') + bm([4, 72]) + e('00000000ABCD') + e('999') + e('X' * 999),
    }[kind]


def replay_fault(n, k, fault, enc, blocked, lens, L, cut, goods=None, t=None):
    given = goods
    from cardutil import mciipm, iso8583, CardutilError
    import cardutil.cli as cli
    f = io.BytesIO()
    w = mciipm.VbsWriter(f, blocked=blocked)
    goods = []
    raw_k = None
    for i in range(1, n + 1):
        if i == k and fault != 'truncated':
            if fault == 'oversize':
                pre = struct.pack('>I', L)
                w.out_file.write(pre)
                w.out_file.write(b'1240' + ref.ref_bitmap([2]) + b'0512345')
                raw_k = pre
            else:
                body = _bad(fault, enc)
                w.write(body)
                raw_k = struct.pack('>I', len(body)) + body
            goods.append(None)
        else:
            ln = max(1, (lens[i - 1] or 5))
            msg = {'MTI': '1240', 'DE2': 'P' * min(ln, 99)} if i % 2 == 0 else {'MTI': '1240', 'DE3': '123456', 'DE63': 'Q' * max(1, min(ln - 9, 300))}
            if given and given[i - 1]:
                msg = ref.concrete_msg(given[i - 1])
            body = iso8583.dumps(dict(msg), encoding=enc)
            w.write(body)
            goods.append((msg, body))
    w.close()
    data = f.getvalue()
    if fault == 'truncated':
        start = sum(4 + len(g[1]) for g in goods[:k - 1])
        body = goods[k - 1][1]
        c = min(cut or 0, len(body) - 1)
        p = start + 4 + c
        if t is None:
            t = (p // 1012) * 1014 + p % 1012 if blocked else p
        data = data[:t]
        raw_k = struct.pack('>I', len(body)) + body[:c]
    rd = mciipm.IpmReader(io.BytesIO(data), encoding=enc, blocked=blocked)
    got = []
    try:
        for d in rd:
            got.append(d)
        return True, 'no error raised', 'C10/no-error'
    except mciipm.MciIpmDataError as e:
        err = e
    except Exception as e:
        return True, 'raised %s' % type(e).__name__, 'C10/exception'
    level = 'framing' if fault in ('truncated', 'oversize') else 'message'
    if len(got) != k - 1:
        return True, 'delivered %d records before the error, expected %d' % (len(got), k - 1), 'C10/delivered'
    if err.record_number != k:
        return True, '%s fault in record %d of %d reported as record %r' % (fault, k, n, err.record_number), 'C10/record-number/' + level
    if err.binary_context_data != raw_k:
        return True, 'context data differ from the raw record', 'C10/context'
    buf = io.StringIO()
    with contextlib.redirect_stdout(buf):
        cli.print_exception_details(err)
    if 'Error detected in record %d\n' % k not in buf.getvalue():
        return True, 'operator message: %r' % buf.getvalue()[:80], 'C10/message'
    return False, 'ok', None


def replay_twofaults(k1, k2, kind1, kind2, enc, blocked):
    from cardutil import mciipm, iso8583
    n = k2 + 1
    f = io.BytesIO()
    w = mciipm.VbsWriter(f, blocked=blocked)
    for i in range(1, n + 1):
        if i == k1:
            w.write(_bad(kind1, enc))
        elif i == k2:
            if kind2 == 'oversize':
                w.out_file.write(struct.pack('>I', 70000))
            else:
                w.write(_bad(kind2, enc))
        else:
            w.write(iso8583.dumps({'MTI': '1240', 'DE2': 'P' * 12}, encoding=enc))
    w.close()
    rd = mciipm.IpmReader(io.BytesIO(f.getvalue()), encoding=enc, blocked=blocked)
    errors = []
    for _ in range(n + 2):
        try:
            next(rd)
        except StopIteration:
            break
        except mciipm.MciIpmDataError as e:
            errors.append(e.record_number)
            if len(errors) == 2:
                break
    if errors != [k1, k2]:
        return True, 'bad records %s reported as %s' % ([k1, k2], errors), 'C10/two-faults'
    return False, 'ok', None


def replay_twostep(pre, k, fault, enc, blocked):
    from cardutil import mciipm, iso8583
    f = io.BytesIO()
    w = mciipm.VbsWriter(f, blocked=blocked)
    for i in range(1, k + 1):
        if i == k and fault == 'oversize':
            w.out_file.write(struct.pack('>I', 70000))
        elif i == k and fault != 'truncated':
            w.write(_bad(fault, enc))
        else:
            w.write(iso8583.dumps({'MTI': '1240', 'DE2': 'P' * 12}, encoding=enc))
    w.close()
    data = f.getvalue()
    if fault == 'truncated':
        data = data[:k * (4 + 20 + 2 + 12) - 3]
    rd = mciipm.IpmReader(io.BytesIO(data), encoding=enc, blocked=blocked)
    for _ in range(pre):
        next(rd)
    try:
        for d in rd:
            pass
        return True, 'no error raised', 'C10/two-step'
    except mciipm.MciIpmDataError as e:
        if e.record_number != k:
            return True, 'bad record %d reported as %r after %d next() calls' % (k, e.record_number, pre), 'C10/two-step'
    return False, 'ok', None


BIG = {'MTI': '1240', 'DE54': 'A' * 999, 'DE63': 'B' * 999, 'DE72': 'C' * 999, 'DE111': 'D' * 999, 'DE127': 'E' * 999,
       'DE123': '0001992' + 'F' * 992, 'DE124': '0002992' + 'G' * 992}


def replay_configured_max(case, blocked, n):
    from cardutil import mciipm, config
    f = io.BytesIO()
    w = mciipm.IpmWriter(f, blocked=blocked)
    w.write({'MTI': '1240', 'DE2': '4444555566667777'})
    if case == 'lowered-to-300':
        w.write({'MTI': '1240', 'DE63': 'Q' * n})
        w.write({'MTI': '1240', 'DE3': '000000'})
        newmax = 300
    else:
        w.write(dict(BIG))
        mciipm.VbsWriter.write(w, _bad('bad-mti', 'latin_1'))
        newmax = 10000
    w.close()
    old = config.config.get('MAX_VBS_RECORD_LENGTH', 6000)
    config.config['MAX_VBS_RECORD_LENGTH'] = newmax
    got, err = [], None
    try:
        try:
            for d in mciipm.IpmReader(io.BytesIO(f.getvalue()), blocked=blocked):
                got.append(d)
        except mciipm.MciIpmDataError as e:
            err = e
    finally:
        config.config['MAX_VBS_RECORD_LENGTH'] = old
    if case == 'lowered-to-300':
        if 23 + n > 300:
            if err is None or len(got) != 1:
                return True, 'maximum lowered to 300, record 2 has %d bytes: %d delivered, error %s' % (23 + n, len(got), err is not None), 'C10/configured-max'
            if err.record_number != 2:
                return True, 'oversize record 2 reported as record %s' % err.record_number, 'C10/record-number'
        elif err is not None or len(got) != 3:
            return True, 'all records fit, %d delivered' % len(got), 'C10/configured-max'
        return False, 'ok', None
    if len(got) != 2:
        return True, 'maximum raised to 10000: %d records delivered before the error (record 2 has 7034 bytes and fits)' % len(got), 'C10/configured-max'
    if err is None or err.record_number != 3:
        return True, 'bad record 3 reported as %s' % getattr(err, 'record_number', None), 'C10/record-number'
    return False, 'ok', None
