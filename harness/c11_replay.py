import io
from . import ref


def replay_history(writer, blocked, lengths, fins, readable=True, content=None, seekable=True, many=False):
    from cardutil import mciipm
    f = io.BytesIO()
    if not readable:
        f.readable = lambda: False
    if not seekable:
        class _Forward(io.BytesIO):
            def seekable(self):
                return False

            def seek(self, *a):
                raise io.UnsupportedOperation('not seekable')

            def tell(self):
                raise io.UnsupportedOperation('not seekable')
        f = _Forward()
    if writer == 'vbs':
        w = mciipm.VbsWriter(f, blocked=blocked)
        items = list(content) if content else [ref.content(n, i) for i, n in enumerate(lengths)]
    else:
        w = mciipm.IpmWriter(f, blocked=blocked)
        items = [{'MTI': '1144', 'DE2': v} for v in content] if content else \
            [{'MTI': '1144', 'DE2': ''.join(chr(65 + (j + i) % 26) for j in range(n))} for i, n in enumerate(lengths)]
    w.__enter__()
    bound_close = w.close
    if many:
        w.write_many(items[:-1])
        w.write(items[-1])
    else:
        for it in items:
            w.write(it)
    snap = None
    for k, fin in enumerate(fins):
        if not seekable:
            try:
                w.close() if fin == 'close' else w.__exit__(None, None, None)
            except (io.UnsupportedOperation, OSError):
                pass
        elif fin == 'close':
            w.close()
        elif fin == 'bound-close':
            bound_close()
        elif fin.startswith('exit-'):
            exc = {'exit-error': ValueError, 'exit-generator-exit': GeneratorExit, 'exit-keyboard-interrupt': KeyboardInterrupt}[fin]
            if w.__exit__(exc, exc('leaving the with block'), None):
                return True, '__exit__ swallows the exception', 'C11/exit-swallows'
        elif fin == 'with':
            with w:
                pass
        else:
            w.__exit__(None, None, None)
        if k == 0:
            snap = f.getvalue()
    final = f.getvalue()
    if readable and seekable and f.tell() != 0:
        return True, 'finalised file left at offset %d, not at its start' % f.tell(), 'C11/rewind'
    if blocked:
        if len(final) % 1014 or any(final[j + 1012:j + 1014] != b'@@' for j in range(0, len(final), 1014)):
            return True, 'finalised blocked file of %d bytes is not valid 1014 form' % len(final), 'C11/blocked-form'
    f = io.BytesIO(final)
    try:
        got = list((mciipm.VbsReader if writer == 'vbs' else mciipm.IpmReader)(f, blocked=blocked))
    except mciipm.MciIpmDataError as e:
        return True, 'does not read back: %s' % e, 'C11/readback'
    if writer == 'ipm':
        want = [dict(it) for it in items]
        got = [{k: g.get(k) for k in ('MTI', 'DE2')} for g in got]
    else:
        want = items
    if got != want:
        return True, 'read back %d records after %s, wrote %d' % (len(got), '+'.join(fins), len(items)), 'C11/readback'
    if final != snap:
        return True, 'later finalisation changed the file', 'C11/refinalise'
    return False, 'ok', None
