import io
import os
import tempfile
from . import ref


def replay_ipm(tool, a, b, fa, fb, msgs):
    from cardutil import mciipm
    from cardutil.config import config
    from cardutil.cli import mci_ipm_encode, mideu
    from . import packaged
    cfgs = packaged.bit_config()
    ms = [ref.concrete_msg(m, cfgs) for m in msgs]
    f = io.BytesIO()
    w = mciipm.IpmWriter(f, encoding=a, blocked=fa)
    for m in ms:
        w.write(dict(m))
    w.close()
    original = f.getvalue()
    fmt = lambda x: '1014' if x else 'vbs'

    def conv(data, x, y, fx, fy):
        if tool == 'mci_ipm_encode':
            out = io.BytesIO()
            mci_ipm_encode.mci_ipm_encode(io.BytesIO(data), out_file=out, in_encoding=x, out_encoding=y, in_format=fmt(fx), out_format=fmt(fy))
            return out.getvalue()
        d = tempfile.mkdtemp(prefix='verif.c19.', dir='/dev/shm')
        try:
            p = os.path.join(d, 'in.ipm')
            open(p, 'wb').write(data)
            mideu.convert(None, input=p, no1014blocking=not fx, sourceformat='ebcdic' if x == 'cp500' else 'ascii')
            return open(p + '.out', 'rb').read()
        finally:
            import shutil
            shutil.rmtree(d, ignore_errors=True)
    try:
        converted = conv(original, a, b, fa, fb)
        got = list(mciipm.IpmReader(io.BytesIO(converted), encoding=b, blocked=fb))
    except Exception as e:
        return True, 'raised %s: %s' % (type(e).__name__, e), 'C19/exception'
    if len(got) != len(ms):
        return True, '%d records after conversion, %d before' % (len(got), len(ms)), 'C19/count'
    for i, (g, m) in enumerate(zip(got, ms)):
        for k, v in m.items():
            if g.get(k) != v:
                return True, 'record %d: %s became %r' % (i + 1, k, str(g.get(k))[:30]), 'C19/value'
    try:
        restored = conv(converted, b, a, fb, fa)
    except Exception as e:
        return True, 'return conversion raised %s' % type(e).__name__, 'C19/exception'
    if restored != original:
        return True, 'return conversion differs from the original file', 'C19/reversible'
    return False, 'ok', None


def replay_param(tool, a, b, fa, fb, lens, texts=None):
    from cardutil import mciipm
    from cardutil.cli import mci_ipm_param_encode, paramconv
    texts = texts or [''.join(chr(48 + (j * 5 + i) % 43) for j in range(n)) for i, n in enumerate(lens)]
    f = io.BytesIO()
    w = mciipm.VbsWriter(f, blocked=fa)
    for t in texts:
        w.write(t.encode(a))
    w.close()
    original = f.getvalue()
    fmt = lambda x: '1014' if x else 'vbs'

    def conv(data, x, y, fx, fy):
        out = io.BytesIO()
        if tool == 'mci_ipm_param_encode':
            mci_ipm_param_encode.mci_ipm_param_encode(io.BytesIO(data), out, in_encoding=x, out_encoding=y, in_format=fmt(fx), out_format=fmt(fy))
        else:
            paramconv.mci_ipm_param_encode(io.BytesIO(data), out, in_encoding=x, out_encoding=y, blocked=fx)
        return out.getvalue()
    try:
        converted = conv(original, a, b, fa, fb)
        got = [r.decode(b) for r in mciipm.VbsReader(io.BytesIO(converted), blocked=fb)]
    except Exception as e:
        return True, 'raised %s: %s' % (type(e).__name__, e), 'C19/exception'
    if got != texts:
        return True, 'records differ after conversion', 'C19/value'
    if conv(converted, b, a, fb, fa) != original:
        return True, 'return conversion differs from the original file', 'C19/reversible'
    return False, 'ok', None
