"""C05 -- 1014 unblocking: reads return the exact payload stream for every read sequence"""
from vsym.runner import Ob
from .common import *
from vsym.core import s_ite, s_min, s_max, s_implies

PROPERTY = 'C05'
DEBUG_LOG = ['step/read-from-any-state', 'readall/read-without-size']      # obligations that are also explored with debug logging switched on
PYTHON_O = ['step/read-from-any-state', 'unblock_1014/validation']      # obligations that are also explored with the modules compiled as under python -O
ASSUMPTIONS = [
    'file object = RopeFile (io.BytesIO semantics)',
    'file content is opaque; the two trailer bytes of each block are read through the peek table (arbitrary byte values)',
    'state invariant of Unblock1014 (re-established by every read, checked): buffer = payload[d:fetched(k)], file at block k, '
    '0 <= fetched(k)-d <= 1012, and an empty buffer only initially or at end of file',
]


def _funcs():
    m = M().mciipm
    return [m.Unblock1014.read, m.Unblock1014.__init__, m.unblock_1014, m.block_1014]


def payload_of(F, FL, nblocks):
    """reference: the 1012-byte payloads of the blocks of file F (opaque source of length FL), trailers removed"""
    ps = []
    for j in range(nblocks):
        lo = s_min(j * 1014, FL)
        hi = s_min(j * 1014 + 1012, FL)
        ps.append(Opq(F, lo, hi, ()))
    return mk('b', ps)


def fetched(FL, k, nblocks):
    t = 0
    for j in range(nblocks):
        t = t + s_ite(j < k if not isinstance(k, int) else (j < k), s_min(1012, s_max(0, FL - j * 1014)), 0)
    return t


def _state(flmax, nblocks):
    m = M().mciipm
    FL = sym_int('FL', 0, flmax)
    k = sym_int('k', 0, nblocks)
    F = Source('file', 'b', FL)
    P = payload_of(F, FL, nblocks)
    total = rlen(P)
    fk = fetched(FL, k, nblocks)
    d = sym_int('d', 0)
    assume(d <= fk)
    assume(fk - d <= 1012)
    # empty buffer only initially or once the file is exhausted
    assume(s_implies(s_eq(fk, d), s_or(s_and(s_eq(k, 0), s_eq(d, 0)), k * 1014 >= FL)))
    # k never runs past the first block boundary at or after end of file
    assume(s_or(s_eq(k, 0), (k - 1) * 1014 < FL))
    f = RopeFile(F.rope())
    f.pos = s_min(k * 1014, FL)
    u = m.Unblock1014(f)
    u.buffer = P.cut(d, fk) if not same_int(d, fk) else b''
    return m, FL, k, d, F, P, total, f, u


def step(flmax, nblocks, nmax):
    def h():
        core.FUEL.set(nblocks + 4)
        m, FL, k, d, F, P, total, f, u = _state(flmax, nblocks)
        n = sym_int('n', 1, nmax)
        def rp():
            return {'kind': 'reads', 'args': {'FL': ev(FL), 'reads': [ev(d), ev(n), 7, None], 'data': concretize(F.rope(), ev)}}
        core.set_fallback(rp, 'C05/concretised')
        try:
            out = u.read(n)
        except core.OutOfFuel:
            fail('read does not terminate', key='C05/hang', replay=rp)
        end = s_min(d + n, total)
        want = P.cut(d, end)
        req_eq(out, want, 'read(n) did not return payload[d:d+n]', key='C05/read', replay=rp)
        # invariant re-established
        pos = f.pos
        require(s_or(s_eq(pos % 1014, 0), s_eq(pos, FL)), 'file not at a block boundary after read', key='C05/state', replay=rp)
        k2 = (pos + 1013) // 1014
        fk2 = fetched(FL, k2, nblocks)
        req_eq(u.buffer, P.cut(end, fk2) if not same_int(end, fk2) else b'', 'buffer is not payload[d+n:fetched]', key='C05/state', replay=rp)
        # whatever else the reader remembers between calls must not matter either: the next read continues the payload stream
        core.FUEL.set(nblocks + 4)
        try:
            nxt = u.read(7)
        except core.OutOfFuel:
            fail('read does not terminate', key='C05/hang', replay=rp)
        end2 = s_min(end + 7, total)
        req_eq(nxt, P.cut(end, end2) if not same_int(end, end2) else b'', 'the read after read(n) did not continue the payload stream', key='C05/read', replay=rp)
        return {'sample': {'FL': ev(FL), 'k': ev(k), 'd': ev(d), 'n': ev(n), 'returned': ev(rlen(out))}, 'replay': rp()}
    return h


def long_stream(nblocks, lo, hi):
    """a longer history on one reader, from the start of a well-formed file of `nblocks` blocks: one large read that takes the delivered
    total anywhere into lo..hi (past 65 536 bytes), then a read of 1..1100 bytes, a read of 7, and read() for the rest"""
    def h():
        core.FUEL.set(nblocks + 6)
        m = M().mciipm
        FL = nblocks * 1014
        F = Source('file', 'b', FL)
        P = payload_of(F, FL, nblocks)
        total = nblocks * 1012
        u = m.Unblock1014(RopeFile(F.rope()))
        n0 = sym_int('n0', lo, hi)
        n1 = sym_int('n1', 1, 1100)

        def rp():
            return {'kind': 'reads', 'args': {'FL': FL, 'reads': [ev(n0), ev(n1), 7, None], 'data': concretize(F.rope(), ev)}}
        core.set_fallback(rp, 'C05/concretised')
        pos = 0
        for i, n in enumerate([n0, n1, 7]):
            core.FUEL.set(nblocks + 6)
            try:
                out = u.read(n)
            except core.OutOfFuel:
                fail('read does not terminate', key='C05/hang', replay=rp)
            end = s_min(pos + n, total)
            req_eq(out, P.cut(pos, end) if not same_int(pos, end) else b'', 'read %d of a long stream did not return payload[d:d+n]' % (i + 1), key='C05/read', replay=rp)
            pos = end
        core.FUEL.set(nblocks + 6)
        try:
            rest = u.read()
        except core.OutOfFuel:
            fail('read() does not terminate', key='C05/hang', replay=rp)
        req_eq(rest, P.cut(pos, total) if not same_int(pos, total) else b'', 'read() after a long stream did not return everything that remains', key='C05/readall', replay=rp)
        return {'sample': {'FL': FL, 'n0': ev(n0), 'n1': ev(n1)}, 'replay': rp()}
    return h


def readall(flmax, nblocks):
    def h():
        core.FUEL.set(nblocks + 4)
        m, FL, k, d, F, P, total, f, u = _state(flmax, nblocks)
        def rp():
            return {'kind': 'reads', 'args': {'FL': ev(FL), 'reads': [ev(d), None, 5, None], 'data': concretize(F.rope(), ev)}}
        core.set_fallback(rp, 'C05/concretised')
        try:
            out = u.read()
        except core.OutOfFuel:
            fail('read() does not terminate', key='C05/hang', replay=rp)
        req_eq(out, P.cut(d, total) if not same_int(d, total) else b'', 'read() with no size did not return everything that remains',
               key='C05/readall', replay=rp)
        again = u.read(5)
        require(s_eq(rlen(again), 0), 'a read after read() returned data again', key='C05/readall-again', replay=rp)
        again2 = u.read()
        require(s_eq(rlen(again2), 0), 'a second read() returned data again', key='C05/readall-again', replay=rp)
        return {'sample': {'FL': ev(FL), 'k': ev(k), 'd': ev(d), 'returned': ev(rlen(out))}, 'replay': rp()}
    return h


def validate(flmax, nblocks):
    def h():
        core.FUEL.set(nblocks + 4)
        m = M().mciipm
        FL = sym_int('FL', 0, flmax)
        F = Source('file', 'b', FL)
        fi = RopeFile(F.rope())
        fo = RopeFile()

        def rp():
            return {'kind': 'unblock', 'args': {'data': concretize(F.rope(), ev)}}
        core.set_fallback(rp, 'C05/concretised')
        try:
            m.unblock_1014(fi, fo)
            raised = None
        except m.MciIpmDataError as e:
            raised = e
        except core.OutOfFuel:
            fail('unblock_1014 does not terminate', key='C05/hang', replay=rp())
        except Exception as e:
            fail('unblock_1014 raised %s' % type(e).__name__, key='C05/unblock-exception', replay=rp())
        whole = s_eq(FL % 1014, 0)
        nb = FL // 1014
        ok = [whole]
        for j in range(nblocks):
            if j < nb:
                if (j + 1) * 1014 <= FL:
                    ok.append(s_and(s_eq(F.peek(j * 1014 + 1012, ()), 0x40), s_eq(F.peek(j * 1014 + 1013, ()), 0x40)))
            else:
                break
        good = s_and(*ok)
        if raised is None:
            require(good, 'unblock_1014 accepted input that is not whole blocks with 0x40 0x40 trailers', key='C05/unblock-accepts', replay=rp())
            req_eq(fo.getvalue(), payload_of(F, FL, nblocks), 'unblock_1014 output is not the concatenated payloads', key='C05/unblock-output', replay=rp())
            require(same_int(fo.pos, 0), 'output not rewound', key='C05/unblock-output', replay=rp())
        else:
            require(s_not(good), 'unblock_1014 refused a well-formed blocked file', key='C05/unblock-refuses', replay=rp())
        return {'sample': {'FL': ev(FL), 'accepted': raised is None}, 'replay': rp()}
    return h


def inverse(nmax, nblocks):
    def h():
        core.FUEL.set(nblocks + 4)
        m = M().mciipm
        n = sym_int('n', 0, nmax)
        D = Source('data', 'b', n)
        rp = {'kind': 'inverse', 'args': {'n': ev(n)}}
        core.set_fallback(rp, 'C05/concretised')
        a, b, c = RopeFile(D.rope()), RopeFile(), RopeFile()
        m.block_1014(a, b)
        core.FUEL.set(nblocks + 4)
        try:
            m.unblock_1014(b, c)
        except m.MciIpmDataError:
            fail('unblock_1014 refuses the output of block_1014', key='C05/inverse', replay=rp)
        U = c.getvalue()
        require(rlen(U) >= n, 'unblocked output shorter than the data', key='C05/inverse', replay=rp)
        req_eq(sl(U, 0, n), D.rope(), 'unblock(block(d)) does not start with d', key='C05/inverse', replay=rp)
        extra = rlen(U) - n
        require(extra < 1012, 'more than a block of fill', key='C05/inverse', replay=rp)
        req_eq(sl(U, n, rlen(U)), mk('b', [Fill(PAD, extra)]) if not same_int(extra, 0) else b'', 'bytes after the data are not fill', key='C05/inverse', replay=rp)
        return {'sample': {'n': ev(n), 'unblocked': ev(rlen(U))}, 'replay': rp}
    return h


def obligations(tier):
    q = tier == 'quick'
    nb = 4 if q else 8
    flmax = nb * 1014 + 20 - 1014
    nb_state = nb
    from . import c03
    extra = [Ob('convenience/vbs_bytes_to_list/blocked', c03.roundtrip([4000], True, 'func'), 300,
                'a blocked VBS stream of one record of every length 1..4000 (one to four blocks) unblocked through vbs_bytes_to_list(blocked=True) '
                '(the C03 obligation: the payload stream comes back byte for byte)', _funcs),
             Ob('convenience/vbs_bytes_to_list/blocked/3-to-5-blocks', c03.roundtrip([4900], True, 'func', lo=2100), 300,
                'the same for one record of 2100..4900 bytes (three to five blocks)', _funcs)]
    return extra + [
        Ob('step/read-from-any-state', step(flmax, nb_state, 2100), 240,
           'file length 0..%d (any, not only multiples of 1014), any invariant state (k<=%d blocks fetched, d delivered), n in 1..2100' % (flmax, nb_state), _funcs,
           'files longer than %d bytes; read sizes above 2100 (two blocks); induction covers read sequences of any length' % flmax),
        Ob('readall/read-without-size', readall(flmax, nb_state), 120, 'same states; read() with no argument', _funcs),
        Ob('unblock_1014/validation', validate(flmax, nb_state), 240,
           'arbitrary input of length 0..%d, arbitrary trailer bytes (peek table): accepted iff whole blocks with 0x40 0x40 trailers' % flmax, _funcs),
        Ob('history/long-stream-past-64K', long_stream(70 if q else 90, 64000, 66600 if q else 80000), 300,
           'one reader from the start of a well-formed file of %d blocks: read(n0) with n0 anywhere in 64000..%d, read(1..1100), read(7), read()' % (70 if q else 90, 66600 if q else 80000),
           _funcs, 'a sampled longer history (the induction above is over states of at most %d blocks)' % nb_state),
        Ob('unblock_1014/inverts-block_1014', inverse(10200 if q else 20300, 12 if q else 22), 300, 'data length 0..%d' % (10200 if q else 20300), _funcs),
    ]
