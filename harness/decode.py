"""abstract incoming messages (arbitrary bytes) + an independent strict reading over ropes; shared by C07 and C08"""
import binascii

from .common import *
from .isomsg import bit_config, bitmap_bytes, flen, configured_bits, PDS_CARRIERS
from vsym import models


class Reject(Exception):
    """the strict reading refuses the message"""
    def __init__(self, why):
        super().__init__(why)
        self.why = why


def icc_strict(field):
    """independent TLV reading of an abstract ICC field through the peek table.
    -> dict with rope keys 'TAG'+HEX -> hex rope.  Raises Reject when a tag has no length byte."""
    n = rlen(field)
    out = []
    i = 0
    steps = 0
    while True:
        if not (i < n):
            break
        steps += 1
        if steps > 40:
            raise core.Unsupported('ICC field too long for the reference reader')
        b0 = peek_byte(field, i)
        two = s_or(s_eq(b0, 0x9f), s_eq(b0, 0x5f))
        if two:
            tag = sl(field, i, i + 2)
            i = i + 2
        else:
            tag = sl(field, i, i + 1)
            i = i + 1
        # tag 00 ends the walk (a two byte tag can never be 00)
        if not two:
            if s_eq(b0, 0):
                break
        if not (i < n):
            raise Reject('ICC tag without a length byte')
        ln = peek_byte(field, i)
        val = sl(field, i + 1, i + 1 + ln)
        out.append((tag, val))
        i = i + 1 + ln
    return out


def peek_byte(r, i):
    """symbolic value of byte i of an abstract bytes rope"""
    one = sl(r, i, i + 1)
    if isinstance(one, bytes):
        return one[0]
    p = rope.nonempty_pieces(one)[0]
    if isinstance(p, Opq):
        return p.src.peek(p.lo, p.chain)
    if isinstance(p, rope.Lit):
        return p.v[0]
    raise core.Unsupported('peek into %r' % (p,))


PLAIN = [True]


def _plain(txt):
    """records whether every numeral read so far consists of plain decimal digits (acceptance of anything else is a don't-care)"""
    if isinstance(txt, Rope):
        try:
            PLAIN[0] = s_and(PLAIN[0], models.rope_isdigit(txt))
        except core.Unsupported:
            pass
    elif isinstance(txt, str):
        PLAIN[0] = s_and(PLAIN[0], txt.isascii() and txt.isdigit())


def all_numerals_plain():
    return PLAIN[0]


def pds_strict(text):
    """independent strict PDS reading: tag(4) len(3) value, len >= 0, value inside the carrier, tiling exactly"""
    n = rlen(text)
    out = []
    p = 0
    steps = 0
    while True:
        if not (p < n):
            break
        steps += 1
        if steps > 60:
            raise core.Unsupported('PDS carrier too long for the reference reader')
        if p + 7 > n:
            raise Reject('PDS header truncated')
        tag = sl(text, p, p + 4)
        try:
            k = models.sh_int(sl(text, p + 4, p + 7))
        except ValueError:
            raise Reject('PDS length not numeric')
        _plain(sl(text, p + 4, p + 7))
        if k < 0:
            raise Reject('negative PDS length')
        if p + 7 + k > n:
            raise Reject('PDS value runs past the carrier')
        out.append((tag, sl(text, p + 7, p + 7 + k)))
        p = p + 7 + k
    return out


def strict_read(cfgs, bits, data, enc, with_sub=True):
    """the one exact reading of message data (rope) for the flagged elements, or Reject"""
    N = rlen(data)
    pos = 0
    out = {}
    sub = {}
    PLAIN[0] = True
    for b in bits:
        cfg = cfgs.get(str(b))
        if not cfg:
            raise Reject('no configuration for bit %d' % b)
        n = flen(cfg)
        if n:
            if pos + n > N:
                raise Reject('DE%d: truncated length prefix' % b)
            try:
                txt = sl(data, pos, pos + n).decode(enc)
            except UnicodeDecodeError:
                raise Reject('DE%d: length undecodable' % b)
            try:
                ln = models.sh_int(txt)
            except ValueError:
                raise Reject('DE%d: length not numeric' % b)
            _plain(txt)
            if ln < 0:
                raise Reject('DE%d: negative length' % b)
            pos = pos + n
        else:
            ln = cfg.get('field_length', 0)
        if pos + ln > N:
            raise Reject('DE%d runs past the end of the message' % b)
        raw = sl(data, pos, pos + ln)
        pos = pos + ln
        proc = cfg.get('field_processor')
        if proc == 'ICC':
            out['DE%d' % b] = raw
            if with_sub:
                sub['ICC%d' % b] = icc_strict(raw)
            continue
        try:
            v = raw.decode(enc) if not isinstance(raw, bytes) or raw else ''
        except UnicodeDecodeError:
            raise Reject('DE%d undecodable' % b)
        pt = cfg.get('field_python_type')
        if pt in ('int', 'long'):
            _plain(v)
            try:
                v = models.sh_int(v)
            except ValueError:
                raise Reject('DE%d is not a number' % b)
        elif pt == 'datetime':
            try:
                v = models.DateTimeLike.strptime(v, cfg.get('field_date_format', '%y%m%d'))
            except ValueError:
                raise Reject('DE%d is not a date' % b)
        out['DE%d' % b] = v
        if proc == 'PDS' and with_sub:
            sub['PDS%d' % b] = pds_strict(v)
    if not (s_eq(pos, N)):
        raise Reject('bytes left over / missing at the end of the message')
    return out, sub


def abstract_message(bits, enc, hexbm, nmax, mti='1240', name='data', extra_unconfigured=None, bit1=True):
    """MTI + bitmap (concrete, from the family) + opaque data of symbolic length 0..nmax"""
    N = sym_int(name + '_len', 0, nmax)
    src = Source(name, 'b', N)
    bm = bitmap_bytes(list(bits) + ([extra_unconfigured] if extra_unconfigured else []), bit1)
    if hexbm:
        bm = binascii.hexlify(bm)
    data = src.rope() if not (isinstance(N, int) and N == 0) else b''
    return cat('b', mti.encode(enc), bm, data), data, src


def witness_bytes(msg):
    return concretize(msg, ev) if isinstance(msg, Rope) else msg


def values_equal(a, b):
    """decoded value vs strict reading"""
    if isinstance(a, (int, SInt)) and not isinstance(a, bool) and isinstance(b, (int, SInt)):
        return s_eq(a, b)
    if isinstance(a, SymDate) or isinstance(b, SymDate):
        return models.dates_equal(a, b)
    if isinstance(a, (Rope, str, bytes)) and isinstance(b, (Rope, str, bytes)):
        if rope.kind_of(a) != rope.kind_of(b):
            return False
        return rope.rope_eq(a, b)
    return a == b


def bit_families(quick):
    bits = configured_bits()
    singles = [[b] for b in bits]
    cfg = bit_config()
    plain = lambda p: all(cfg[str(b)].get('field_processor') not in ('PDS', 'ICC') for b in p)
    pairs = [[2, 3], [2, 4], [2, 12], [31, 32], [54, 63], [93, 94], [63, 71], [2, 100], [111, 127], [3, 4], [43, 49]]
    if not quick:
        pairs += [[a, b] for a, b in zip(bits, bits[1:]) if [a, b] not in pairs and plain([a, b])]
    triples = [[2, 3, 4], [2, 31, 32], [32, 33, 37]]
    return singles, pairs, triples
