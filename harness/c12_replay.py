def replay_pack(tags, lengths, encoding, values=None, cfg=None, greedy=False):
    from cardutil import iso8583
    import copy
    from cardutil.config import config
    cfgs = None
    car = [48, 62, 123, 124, 125]
    if cfg == 'unordered-keys':
        from . import packaged
        base = packaged.bit_config()
        cfgs = {k: dict(base[k]) for k in sorted(base)}
    if cfg in ('de62-plain', 'reconfigured'):
        from . import packaged
        cfgs = packaged.bit_config_copy()
        if cfg == 'reconfigured':
            iso8583.dumps({'MTI': '1240', 'PDS0001': 'A' * 600, 'PDS0002': 'B' * 600}, iso_config=cfgs)
        del cfgs['62']['field_processor']
        car = [48, 123, 124, 125]
    vals = values or [''.join(chr(48 + (i * 3 + j) % 10) for j in range(n)) for i, n in enumerate(lengths)]   # digits: look like headers
    msg = {'MTI': '1240'}
    for t, v in zip(tags, vals):
        msg['PDS' + t] = v
    order = sorted(range(len(tags)), key=lambda i: tags[i])
    # independent greedy reference
    ref, cur = [], ''
    for i in order:
        add = '%s%03d%s' % (tags[i], lengths[i], vals[i])
        if len(cur) + len(add) > 999:
            ref.append(cur)
            cur = ''
        cur += add
    if cur:
        ref.append(cur)
    outs = iso8583._pds_to_de(dict(msg))
    if ''.join(outs) != ''.join(ref):
        return True, 'carrier content differs from tag/len/value in ascending order', 'C12/layout'
    if any(len(o) > 999 or not o for o in outs):
        return True, 'carrier lengths %s' % [len(o) for o in outs], 'C12/cap'
    bounds, c = set(), 0
    for r in order:
        c += 7 + lengths[r]
        bounds.add(c)
    c = 0
    for o in outs:
        c += len(o)
        if c not in bounds:
            return True, 'sub-element split between carriers', 'C12/split'
    if greedy and len(outs) != len(ref):
        return True, 'packed into %d carriers, greedy packing gives %d' % (len(outs), len(ref)), 'C02/pds-greedy'
    if len(ref) <= len(car) and len(outs) > len(car):
        return True, 'packed into %d carriers, %d suffice' % (len(outs), len(ref)), 'C12/capacity'
    try:
        d = iso8583.loads(iso8583.dumps(dict(msg), encoding=encoding, iso_config=cfgs), encoding=encoding, iso_config=cfgs)
    except IndexError:
        return True, 'dumps ran out of carriers', 'C12/capacity'
    except Exception as e:
        return True, 'dumps/loads raised %s' % type(e).__name__, 'C12/decode'
    for j, o in enumerate(outs):
        if d.get('DE%d' % car[j]) != o:
            return True, 'DE%d does not hold packed string %d' % (car[j], j + 1), 'C12/assign'
    for t, v in zip(tags, vals):
        if d.get('PDS' + t) != v:
            return True, 'PDS%s came back as %r...' % (t, str(d.get('PDS' + t))[:20]), 'C12/decode'
    if [k for k in d if k.startswith('PDS') and k[3:] not in tags]:
        return True, 'invented sub-elements', 'C12/decode'
    return False, 'ok', None
