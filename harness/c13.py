"""C13 -- PIN blocks follow ISO 9564 formats 0 and 4 and return the PIN, for 4-12 digits"""
import z3
from vsym.runner import Ob
from vsym import symstr, cryptostub
from vsym.symstr import SymStr, SymBytes, HexInt, HexNib, hex_string, concretize_str
from .common import core, sym_int, assume, require, fail, ev, guard, s_and, s_or, s_not
from vsym.core import choose, mk_bool
from .pinmods import P

PROPERTY = 'C13'
PYTHON_O = ['iso0/clear', 'iso4/clear/random-supplied', 'iso0/tdes']      # obligations that are also explored with the modules compiled as under python -O
TECHNIQUE = 'the real pinblock functions executed on strings of 4-bit-vector characters (z3 QF_BV + uninterpreted cipher); one solver query per assertion over all digit/nibble values; lengths enumerated'
ASSUMPTIONS = [
    'PIN length 4..12 and PAN length 13..19 are enumerated (every pair), every digit value is symbolic (4-bit vectors constrained to 0..9)',
    'the cipher is an uninterpreted function E_alg(key, block) with the real library\'s key/data length checks and D(k, E(k, x)) = x: the claim is '
    'the data flow into and out of the cipher, not the numerical correctness of 3DES/AES (OpenSSL behind FFI, outside this technique)',
    'secrets.randbits returns a fresh 64-bit vector per call (calls counted)',
    'a cipher context keeps the bytes of an incomplete block between update() calls and refuses them at finalize() (the library\'s behaviour), '
    'so a context that outlives a call carries its leftover into the next one',
]


def _funcs():
    pb = P().pinblock
    return [pb.Iso0PinBlock.to_bytes, pb.Iso0PinBlock.from_bytes, pb.Iso4PinBlock.__init__, pb.Iso4PinBlock.to_bytes, pb.Iso4PinBlock.from_bytes,
            pb.TdesEncryptedPinBlockMixin.encrypt, pb.TdesEncryptedPinBlockMixin.decrypt, pb.TdesEncryptedPinBlockMixin.to_enc_bytes,
            pb.TdesEncryptedPinBlockMixin.from_enc_bytes, pb.AESEncryptedPinBlockMixin.encrypt, pb.AESEncryptedPinBlockMixin.decrypt]


def nibs_eq(a, b):
    if len(a) != len(b):
        return False
    return mk_bool(z3.And(*[(x if not isinstance(x, int) else z3.BitVecVal(x, 4)) == (y if not isinstance(y, int) else z3.BitVecVal(y, 4))
                            for x, y in zip(a, b)]))


def ref_iso0(pin, pan):
    """ISO 9564 format 0 written from the standard: (0, L, PIN, F fill) xor (0000, 12 rightmost PAN digits excluding the check digit)"""
    L = len(pin.cells)
    p1 = [0, L] + [c.t for c in pin.cells] + [15] * (14 - L)
    pan12 = pan.cells[-13:-1]
    p2 = [0, 0, 0, 0] + [c.t for c in pan12]
    return [z3.simplify((z3.BitVecVal(a, 4) if isinstance(a, int) else a) ^ (z3.BitVecVal(b, 4) if isinstance(b, int) else b)) for a, b in zip(p1, p2)]


def ref_iso4(pin, rnd_bv):
    L = len(pin.cells)
    head = [4, L] + [c.t for c in pin.cells] + [10] * (14 - L)
    return head + HexInt.from_bv(rnd_bv).nibs


def iso0_two_cards():
    """format-0 blocks for two card numbers one after the other in the same process: the second block is that of the second card"""
    def h():
        pb = P().pinblock
        lp = choose('pinlen', [4, 6, 12])
        lcs = choose('panlens', [(16, 16), (14, 13), (19, 16)])
        pin = hex_string('pin', lp, digits_only=True)
        pans = [hex_string('pan%d' % i, lc, digits_only=True) for i, lc in enumerate(lcs)]

        def rp():
            return {'kind': 'iso0_two', 'args': {'pin': concretize_str(pin, ev), 'pans': [concretize_str(p, ev) for p in pans]}}
        core.set_fallback(rp, 'C13/concretised')
        for k, pan in enumerate(pans):
            with guard('Iso0PinBlock.to_bytes', 'C13/iso0-exception', rp):
                blk = pb.Iso0PinBlock(pin, card_number=pan).to_bytes()
            require(isinstance(blk, SymBytes) and len(blk) == 8, 'block is not 8 bytes', key='C13/iso0-layout', replay=rp)
            require(nibs_eq(blk.nibs, ref_iso0(pin, pan)), 'block %d: format-0 block differs from (0,L,PIN,F..) xor (0000,PAN12) of its own card number' % (k + 1),
                    key='C13/iso0-second-card', replay=rp)
            with guard('Iso0PinBlock.from_bytes', 'C13/iso0-exception', rp):
                back = pb.Iso0PinBlock.from_bytes(blk, card_number=pan)
            require(back.pin == pin, 'block %d does not give the PIN back' % (k + 1), key='C13/iso0-roundtrip', replay=rp)
        return {'sample': rp()['args'], 'replay': rp()}
    return h


def iso0():
    def h():
        pb = P().pinblock
        lp = choose('pinlen', range(4, 13))
        lc = choose('panlen', range(13, 20))
        pin = hex_string('pin', lp, digits_only=True)
        pan = hex_string('pan', lc, digits_only=True)

        def rp():
            return {'kind': 'iso0', 'args': {'pin': concretize_str(pin, ev), 'pan': concretize_str(pan, ev)}}
        core.set_fallback(rp, 'C13/concretised')
        with guard('Iso0PinBlock.to_bytes', 'C13/iso0-exception', rp):
            blk = pb.Iso0PinBlock(pin, card_number=pan).to_bytes()
        require(isinstance(blk, SymBytes) and len(blk) == 8, 'block is not 8 bytes', key='C13/iso0-layout', replay=rp)
        require(nibs_eq(blk.nibs, ref_iso0(pin, pan)), 'format-0 block differs from (0,L,PIN,F..) xor (0000,PAN12)', key='C13/iso0-layout/len%d' % (lp >= 10), replay=rp)
        with guard('Iso0PinBlock.from_bytes', 'C13/iso0-exception', rp):
            back = pb.Iso0PinBlock.from_bytes(blk, card_number=pan)
        require(back.pin == pin, 'format-0 block does not give the PIN back', key='C13/iso0-roundtrip', replay=rp)
        return {'sample': rp()['args'], 'replay': rp(), 'checked': 2}
    return h


def iso4(supplied):
    def h():
        pb = P().pinblock
        sec = P().secrets
        lp = choose('pinlen', range(4, 13))
        pin = hex_string('pin', lp, digits_only=True)
        calls0 = sec.calls
        if supplied:
            r = core.cur().fresh_bv('random', 64)
            assume(r != 0)
            rv = HexInt.from_bv(r)
        else:
            rv = None

        def rp():
            return {'kind': 'iso4', 'args': {'pin': concretize_str(pin, ev), 'random': ev(r) if supplied else None, 'positional': positional}}
        core.set_fallback(rp, 'C13/concretised')
        # the signature is (pin, random_value=None): the fill may be given by keyword or as the second positional argument
        positional = choose('positional', [False, True]) if supplied else False
        with guard('Iso4PinBlock', 'C13/iso4-exception', rp):
            obj = pb.Iso4PinBlock(pin, rv) if positional else pb.Iso4PinBlock(pin, random_value=rv)
            blk = obj.to_bytes()
        if supplied:
            require(sec.calls == calls0, 'random fill drawn although one was supplied', key='C13/iso4-random', replay=rp)
            rbv = r
        else:
            require(sec.calls == calls0 + 1, 'random fill not drawn exactly once per block', key='C13/iso4-random', replay=rp)
            rbv = obj.random_value.bv(64)
            # fresh per block: a second block draws again
            obj2 = pb.Iso4PinBlock(pin)
            require(sec.calls == calls0 + 2, 'second block reuses the random fill', key='C13/iso4-random', replay=rp)
        require(isinstance(blk, SymBytes) and len(blk) == 16, 'block is not 16 bytes', key='C13/iso4-layout', replay=rp)
        require(nibs_eq(blk.nibs, ref_iso4(pin, rbv)), 'format-4 block differs from (4,L,PIN,A..,random)', key='C13/iso4-layout/len%d' % (lp >= 10), replay=rp)
        with guard('Iso4PinBlock.from_bytes', 'C13/iso4-exception', rp):
            back = pb.Iso4PinBlock.from_bytes(blk)
        require(back.pin == pin, 'format-4 block does not give the PIN back', key='C13/iso4-roundtrip', replay=rp)
        return {'sample': rp()['args'], 'replay': rp(), 'checked': 3}
    return h


def enc(clsname, keylens):
    def h():
        pb = P().pinblock
        cls = getattr(pb, clsname)
        lp = choose('pinlen', [4, 6, 9, 12] if clsname.startswith('Iso4') else range(4, 13))
        kl = choose('keybytes', keylens)
        pin = hex_string('pin', lp, digits_only=True)
        pan = hex_string('pan', 16, digits_only=True)
        key = hex_string('key', 2 * kl)

        def rp():
            return {'kind': 'enc', 'args': {'cls': clsname, 'pin': concretize_str(pin, ev), 'pan': concretize_str(pan, ev), 'key': concretize_str(key, ev)}}
        core.set_fallback(rp, 'C13/concretised')
        is0 = clsname.startswith('Iso0')
        with guard(clsname, 'C13/enc-exception', rp):
            obj = cls(pin, card_number=pan) if is0 else cls(pin)
            clear = obj.to_bytes()
            ct = obj.to_enc_bytes(key)
        alg = '3DES' if is0 else 'AES'
        bs = 8 if is0 else 16
        keyb = key.__sunhexlify__()
        want = []
        for i in range(0, len(clear), bs):
            want += HexInt.from_bv(cryptostub.reference_E(alg, keyb, clear[i:i + bs].bv())).nibs
        require(nibs_eq(ct.nibs, want), 'encrypted form is not the ECB encryption of the clear block under the key', key='C13/enc-dataflow', replay=rp)
        with guard(clsname + '.from_enc_bytes', 'C13/enc-exception', rp):
            back = cls.from_enc_bytes(ct, key, card_number=pan) if is0 else cls.from_enc_bytes(ct, key)
        require(back.pin == pin, 'decrypting the encrypted block does not give the PIN back', key='C13/enc-roundtrip', replay=rp)
        return {'sample': rp()['args'], 'replay': rp(), 'checked': 2}
    return h


def enc_after_refused(clsname, keylens, pinlens=(4, 12)):
    """history: data that is not a whole number of cipher blocks is handed to encrypt()/decrypt() under a key (refused with ValueError by
    the library), then a PIN block is encrypted and read back under the same key in the same process"""
    def h():
        pb = P().pinblock
        cls = getattr(pb, clsname)
        is0 = clsname.startswith('Iso0')
        bs = 8 if is0 else 16
        lp = choose('pinlen', list(pinlens))
        kl = choose('keybytes', keylens)
        nj = choose('refused-bytes', [1, bs - 1, bs + 3])
        direction = choose('refused-call', ['encrypt', 'decrypt', 'both'])
        pin = hex_string('pin', lp, digits_only=True)
        pan = hex_string('pan', 16, digits_only=True)
        key = hex_string('key', 2 * kl)
        junk = hex_string('refused', 2 * nj)

        def rp():
            return {'kind': 'enc_history', 'args': {'cls': clsname, 'pin': concretize_str(pin, ev), 'pan': concretize_str(pan, ev), 'key': concretize_str(key, ev),
                                                    'refused': concretize_str(junk, ev), 'direction': direction}}
        core.set_fallback(rp, 'C13/concretised')
        for d in (['encrypt', 'decrypt'] if direction == 'both' else [direction]):
            try:
                getattr(cls, d)(key, junk.__sunhexlify__())
            except Exception:          # what the refused call itself does is not part of the claim
                pass
        with guard(clsname, 'C13/enc-exception', rp):
            obj = cls(pin, card_number=pan) if is0 else cls(pin)
            clear = obj.to_bytes()
            ct = obj.to_enc_bytes(key)
        alg = '3DES' if is0 else 'AES'
        keyb = key.__sunhexlify__()
        want = []
        for i in range(0, len(clear), bs):
            want += HexInt.from_bv(cryptostub.reference_E(alg, keyb, clear[i:i + bs].bv())).nibs
        require(isinstance(ct, SymBytes) and nibs_eq(ct.nibs, want), 'after a refused call under the same key the encrypted form is not the ECB encryption of the clear block',
                key='C13/enc-history', replay=rp)
        with guard(clsname + '.from_enc_bytes', 'C13/enc-exception', rp):
            back = cls.from_enc_bytes(ct, key, card_number=pan) if is0 else cls.from_enc_bytes(ct, key)
        require(back.pin == pin, 'after a refused call under the same key decrypting the encrypted block does not give the PIN back', key='C13/enc-history', replay=rp)
        return {'sample': rp()['args'], 'replay': rp(), 'checked': 2}
    return h


def obligations(tier):
    pl = (4, 12) if tier == 'quick' else tuple(range(4, 13))
    return [
        Ob('iso0/clear', iso0(), 300, 'PIN length 4..12 x PAN length 13..19 (all 63 pairs), all digit values', _funcs),
        Ob('iso0/two-cards-one-process', iso0_two_cards(), 300, 'two card numbers (lengths 16/16, 14/13, 19/16; all digit values) one after the other, PIN length 4/6/12', _funcs),
        Ob('iso4/clear/random-supplied', iso4(True), 300, 'PIN length 4..12, all digits, supplied random fill any non-zero 64-bit value', _funcs),
        Ob('iso4/clear/random-drawn', iso4(False), 300, 'PIN length 4..12, all digits, fill drawn from secrets', _funcs),
        Ob('iso0/tdes', enc('Iso0TDESPinBlockWithVisaPVV', [16, 24]), 300, 'PIN 4..12, PAN 16 digits, all keys of 16 / 24 bytes', _funcs),
        Ob('iso4/aes', enc('Iso4AESPinBlockWithVisaPVV', [16, 24, 32]), 300, 'PIN 4/6/9/12 digits, all keys of 16 / 24 / 32 bytes', _funcs),
        Ob('iso0/tdes/after-refused-data', enc_after_refused('Iso0TDESPinBlockWithVisaPVV', [16, 24], pl), 300,
           'history: encrypt/decrypt/both refuse 1, 7 or 11 arbitrary bytes under a key, then PIN %s digits under the same key (all keys of 16 / 24 bytes)' % ('4/12' if tier == 'quick' else '4..12'), _funcs),
        Ob('iso4/aes/after-refused-data', enc_after_refused('Iso4AESPinBlockWithVisaPVV', [16, 32] if tier == 'quick' else [16, 24, 32], pl), 300,
           'history: encrypt/decrypt/both refuse 1, 15 or 19 arbitrary bytes under a key, then PIN %s digits under the same key (all keys of %s bytes)' % (('4/12', '16 / 32') if tier == 'quick' else ('4..12', '16 / 24 / 32')), _funcs),
    ]
