import io

SUBID = {'IP0040T1': '036', 'IP0075T1': '071', 'IP0006T1': '006', 'IP0095T1': '090', 'IPGEN0T1': '123', 'IPOTHER1': '555'}
TRAILER = 'TRAILER RECORD IP0000T1  00000218'


def _index_row(table):
    return (' ' * 11 + 'IP0000T1' + table).ljust(243) + SUBID[table] + ' ' * 10


def _file(mciipm, rows, enc, blocked, trailer=True, tables=None):
    f = io.BytesIO()
    w = mciipm.VbsWriter(f, blocked=blocked)
    for t in (tables or SUBID):
        w.write(_index_row(t).encode(enc))
    if trailer:
        w.write(TRAILER.encode(enc))
    for r in rows:
        w.write(r.encode(enc))
    w.close()
    f.seek(0)
    return f


def replay_extract(table, cfg, expanded, enc, blocked, member, lens, index='all', rows=None, mid_trailer=None):
    from cardutil import mciipm
    from cardutil.config import config
    from . import packaged
    layout = packaged.param_tables()[table] if cfg == 'packaged' else cfg
    given = rows
    rows = []
    for i, (t, n) in enumerate(zip(member, lens)):
        ts = '%07d' % (2100000 + i) if not expanded else '%010d' % (2100000000 + i)
        code = 'A' if i % 2 == 0 else 'I'
        key = ts + code + (t if expanded else SUBID[t])
        body = ''.join(chr(65 + (j * 7 + i) % 26) for j in range(max(0, n - len(key))))
        rows.append(((given[i] if given else key + body), ts, code))
    tables = None if index == 'all' else [t for t in SUBID if t != table]
    file_rows = [r[0] for r in rows]
    if mid_trailer is not None:
        file_rows.insert(mid_trailer + 1, 'TRAILER RECORD %s  %08d' % (table, mid_trailer + 1))
    try:
        rd = mciipm.IpmParamReader(_file(mciipm, file_rows, enc, blocked, tables=tables), table, encoding=enc,
                                   param_config=None if cfg == 'packaged' else {table: layout}, expanded=expanded, blocked=blocked)
        got = list(rd)
    except Exception as e:
        return True, 'raised %s: %s' % (type(e).__name__, e), 'C18/exception'
    want = [i for i, t in enumerate(member) if t == table]
    if len(got) != len(want):
        return True, 'returned %d rows, the table has %d' % (len(got), len(want)), 'C18/rows'
    off = 0 if expanded else -8
    for d, i in zip(got, want):
        row, ts, code = rows[i]
        if (d.get('table_id'), d.get('effective_timestamp'), d.get('active_inactive_code')) != (table, ts, code):
            return True, 'common fields of row %d wrong: %r' % (i, (d.get('effective_timestamp'), d.get('active_inactive_code'))), 'C18/common'
        for col, pos in layout.items():
            if d.get(col) != row[pos['start'] + off:pos['end'] + off]:
                return True, 'row %d column %s = %r, positions %d..%d hold %r' % (i, col, d.get(col), pos['start'], pos['end'], row[pos['start'] + off:pos['end'] + off]), 'C18/column'
    return False, 'ok', None


def replay_two_readers(order, bodies):
    from cardutil import mciipm
    from . import packaged
    ta, tb = 'IP0075T1', 'IP0095T1'
    la = packaged.param_tables()[ta]
    swapped = {ta: SUBID[tb], tb: SUBID[ta]}
    rows_a = ['2100000A' + SUBID[ta] + bodies[0], '2100001A' + SUBID[tb] + bodies[1]]
    rows_b = ['2100002A' + swapped[ta] + bodies[2], '2100003A' + swapped[tb] + bodies[3]]

    def mkfile(rows, ids):
        f = io.BytesIO()
        w = mciipm.VbsWriter(f)
        for t in (ta, tb):
            w.write(((' ' * 11 + 'IP0000T1' + t).ljust(243) + ids[t] + ' ' * 10).encode('latin_1'))
        w.write(TRAILER.encode('latin_1'))
        for r in rows:
            w.write(r.encode('latin_1'))
        w.close()
        f.seek(0)
        return f
    fa, fb = mkfile(rows_a, {ta: SUBID[ta], tb: SUBID[tb]}), mkfile(rows_b, swapped)
    try:
        if order == 'open-both-first':
            ra, rb = mciipm.IpmParamReader(fa, ta), mciipm.IpmParamReader(fb, ta)
            got_a, got_b = list(ra), list(rb)
        else:
            got_a = list(mciipm.IpmParamReader(fa, ta))
            got_b = list(mciipm.IpmParamReader(fb, ta))
    except Exception as e:
        return True, 'raised %s: %s' % (type(e).__name__, e), 'C18/exception'
    for name, got, row in (('first', got_a, rows_a[0]), ('second', got_b, rows_b[0])):
        if len(got) != 1:
            return True, 'the %s reader returned %d rows, its file has 1' % (name, len(got)), 'C18/two-readers'
        for col, pos in la.items():
            if got[0].get(col) != row[pos['start'] - 8:pos['end'] - 8]:
                return True, '%s reader: column %s = %r' % (name, col, got[0].get(col)), 'C18/two-readers'
    return False, 'ok', None


def replay_refuse(case, expanded=False):
    from cardutil import mciipm
    extra = ['TRAILER RECORD IP0075T1  00000003'] if case == 'other-trailer-only' else []
    f = _file(mciipm, extra + [('2100000000AIP0040T1' if expanded else '2100000A036') + 'X' * 40] + extra, 'latin_1', False, trailer=(case not in ('no-trailer', 'other-trailer-only')))
    caller = {'IP0075T1': {'col': {'start': 19, 'end': 22}}, 'IP0190T1': {'col': {'start': 19, 'end': 30}}}
    if case == 'no-records':
        f = io.BytesIO(b'\x00\x00\x00\x00')
    elif case == 'zero-bytes':
        f = io.BytesIO(b'')
    try:
        if case == 'not-in-caller-config':
            mciipm.IpmParamReader(f, 'IP0040T1', param_config=caller, expanded=expanded)
        elif case == 'ok-caller-config':
            mciipm.IpmParamReader(f, 'IP0075T1', param_config=caller, expanded=expanded)
        else:
            mciipm.IpmParamReader(f, 'IP0040T1' if case != 'no-config' else 'IP9999T1', expanded=expanded)
        raised = False
    except mciipm.MciIpmDataError:
        raised = True
    except Exception as e:
        return True, 'raised %s' % type(e).__name__, 'C18/refuse'
    return raised != (not case.startswith('ok')), 'case %s %s' % (case, 'refused' if raised else 'accepted'), 'C18/refuse'


def replay_ascii(expanded, blocked, where):
    from cardutil import mciipm
    from . import packaged
    table = 'IP0075T1'
    layout = packaged.param_tables()[table]
    width = max(p['end'] for p in layout.values()) - 8
    off = 0 if expanded else -8
    rows = []
    for i, t in enumerate([table, 'IPOTHER1', table]):
        ts = '%07d' % (2100000 + i) if not expanded else '%010d' % (2100000000 + i)
        key = ts + 'A' + (t if expanded else SUBID[t])
        body = ''.join(chr(65 + (j + 3 * i) % 26) for j in range(width + 8 - len(key) + (0 if not expanded else 8)))
        row = (key + body).encode('ascii')
        if t != table and where == 'foreign-row':
            row = row[:30] + b'caf\xe9 \xfc\xdf' + row[37:]
        if t == table and where == 'filler-behind-columns':
            row = row + b' \xe9\xe9 filler'
        rows.append((row, ts, t))
    f = io.BytesIO()
    w = mciipm.VbsWriter(f, blocked=blocked)
    for t in SUBID:
        w.write(_index_row(t).encode('ascii'))
    w.write(TRAILER.encode('ascii'))
    for r in rows:
        w.write(r[0])
    w.close()
    f.seek(0)
    try:
        got = list(mciipm.IpmParamReader(f, table, encoding='ascii', expanded=expanded, blocked=blocked))
    except Exception as e:
        return True, 'raised %s: %s' % (type(e).__name__, str(e)[:80]), 'C18/exception'
    want = [r for r in rows if r[2] == table]
    if len(got) != len(want):
        return True, 'returned %d rows, the table has %d' % (len(got), len(want)), 'C18/rows'
    for d, (row, ts, t) in zip(got, want):
        for col, pos in layout.items():
            if d.get(col) != row[pos['start'] + off:pos['end'] + off].decode('ascii'):
                return True, 'column %s wrong' % col, 'C18/column'
    return False, 'ok', None
