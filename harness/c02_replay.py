from . import ref
from .c01_replay import _cfg
from .c12_replay import replay_pack          # the PDS packing obligation is shared with C12


def replay_encode(msg, enc, hexbm, cfg):
    from cardutil import iso8583
    cfgs = _cfg(cfg)
    m = ref.concrete_msg(msg, cfgs)
    try:
        want = ref.ref_encode(m, cfgs, enc, hexbm)
    except ref.RefError as e:
        want = None
        why = str(e)
    try:
        got = iso8583.dumps(dict(m), encoding=enc, hex_bitmap=hexbm, iso_config=cfgs if isinstance(cfg, dict) else None)
    except Exception as e:
        if want is None:
            return False, 'refused as it must be (%s)' % type(e).__name__, None
        return True, 'dumps refused a representable message: %s: %s' % (type(e).__name__, e), 'C02/refused'
    if want is None:
        return True, 'unrepresentable value emitted (%s): ...%r...' % (why, got[20:30]), 'C02/overlength'
    if got != want:
        i = next((i for i, (a, b) in enumerate(zip(got, want)) if a != b), min(len(got), len(want)))
        return True, 'bytes differ from the reference layout at offset %d (%r vs %r)' % (i, got[i:i + 8], want[i:i + 8]), 'C02/layout'
    return False, 'ok', None


def replay_decode(msg, enc, hexbm, cfg):
    from cardutil import iso8583
    cfgs = _cfg(cfg)
    m = ref.concrete_msg(msg, cfgs)
    wire = ref.ref_encode(m, cfgs, enc, hexbm, keep_empty=True)      # a zero count is part of the documented layout
    want, _ = ref.ref_decode(wire, cfgs, enc, hexbm)
    try:
        got = iso8583.loads(wire, encoding=enc, hex_bitmap=hexbm, iso_config=cfgs if isinstance(cfg, dict) else None)
    except Exception as e:
        return True, 'loads refused a message in the documented layout: %s: %s' % (type(e).__name__, e), 'C02/decode-refused'
    if got != want:
        diff = sorted(k for k in set(got) | set(want) if got.get(k) != want.get(k))
        return True, 'decoded dict differs from the independent reading at %s' % diff[:6], 'C02/decode-value'
    return False, 'ok', None


def replay_reconfig_encode(msgs, cfgs, enc, hexbm):
    """one configuration dict object, edited in place between the uses"""
    import copy
    cfg = {}
    res = (False, 'ok', None)
    for m, c in zip(msgs, cfgs):
        cfg.clear()
        cfg.update(copy.deepcopy(c))
        res = replay_encode(m, enc, hexbm, cfg)
        if res[0]:
            return res
    return res


def replay_unencodable(msg, enc):
    from cardutil import iso8583
    from . import packaged
    cfgs = packaged.bit_config()
    try:
        got = iso8583.dumps(dict(msg), encoding=enc)
    except Exception as e:
        return False, 'refused (%s)' % type(e).__name__, None
    try:
        d, _ = ref.ref_decode(got, cfgs, enc, False)
    except ref.RefError as e:
        return True, 'emitted a malformed message: %s (%r)' % (e, got[20:60]), 'C02/unencodable'
    bad = [k for k, v in msg.items() if k != 'MTI' and d.get(k) != v]
    if bad:
        return True, 'emitted, but %s read back as %r' % (bad[0], d.get(bad[0])), 'C02/unencodable'
    return False, 'ok', None


def replay_unconfigured(msg, enc, hexbm, cfg):
    from cardutil import iso8583
    cfgs = _cfg(cfg)
    try:
        got = iso8583.dumps(dict(msg), encoding=enc, hex_bitmap=hexbm, iso_config=cfgs if isinstance(cfg, dict) else None)
    except Exception as e:
        return False, 'refused (%s)' % type(e).__name__, None
    try:
        d, _ = ref.ref_decode(got, cfgs, enc, hexbm)
    except ref.RefError as e:
        return True, 'returned a message whose bitmap and data disagree: %s' % e, 'C02/unconfigured'
    if d.get('DE2') != msg['DE2'] or d.get('DE3') != msg['DE3']:
        return True, 'configured elements changed', 'C02/unconfigured'
    return False, 'ok', None


def replay_pds_overflow(msg, enc, cfg):
    from cardutil import iso8583
    cfgs = _cfg(cfg)
    try:
        got = iso8583.dumps(dict(msg), encoding=enc, iso_config=cfgs if isinstance(cfg, dict) else None)
    except Exception as e:
        return False, 'refused (%s)' % type(e).__name__, None
    try:
        d, _ = ref.ref_decode(got, cfgs, enc, False)
    except ref.RefError as e:
        return True, 'returned a malformed message: %s' % e, 'C02/pds-overflow'
    lost = [k for k in msg if k.startswith('PDS') and d.get(k) != msg[k]]
    if lost:
        return True, 'returned a message from which %s is missing' % lost, 'C02/pds-overflow'
    return False, 'ok', None
