"""symbolic ISO8583 message families + an independent reference layout written from the documentation"""
import binascii

from .common import *
from vsym.core import choose

CODECS = ('latin_1', 'cp500', 'cp037')
PDS_CARRIERS = (48, 62, 123, 124, 125)

ICC_FAMILY = [
    bytes.fromhex('9f2608') + bytes(range(1, 9)) + bytes.fromhex('82020040'),
    bytes.fromhex('5f2a020978') + bytes.fromhex('9a03210304') + bytes.fromhex('9505') + bytes(5),
    bytes.fromhex('9f3303e0f0c8') + bytes.fromhex('00'),                      # low-value tag ends the walk
    bytes.fromhex('8400') + bytes.fromhex('9f100102'),                         # zero-length value
    bytes.fromhex('9f0206000000001000') + bytes.fromhex('00') + bytes.fromhex('9503000480'),   # low-values tag in the middle: the walk stops there
    bytes.fromhex('82020040') + bytes.fromhex('00') + bytes.fromhex('9505ffffffffff'),
]


def icc_reference(data):
    """independent TLV reading of DE55 (1-byte tags, 2-byte tags after 9f/5f, 1-byte length, stop at tag 00)"""
    out = {'ICC_DATA': data.hex()}
    i = 0
    while i < len(data):
        if data[i] in (0x9f, 0x5f):
            tag = data[i:i + 2]
            i += 2
        else:
            tag = data[i:i + 1]
            i += 1
        if tag == b'\x00':
            break
        ln = data[i]
        out['TAG' + tag.hex().upper()] = data[i + 1:i + 1 + ln].hex()
        i += 1 + ln
    return out


def bit_config():
    from . import packaged
    return packaged.bit_config()


def bitmap_bytes(bits, bit1=True):
    """reference: 128-bit bitmap, bit 1 on (as the writer renders it; incoming messages may have it clear), bit n on iff element n present"""
    v = (1 << 127) if bit1 else 0
    for b in bits:
        v |= 1 << (128 - b)
    return v.to_bytes(16, 'big')


def flen(cfg):
    return {'LLVAR': 2, 'LLLVAR': 3}.get(cfg['field_type'], 0)


class Elem:
    """one data element of a symbolic message"""
    def __init__(self, bit, cfg, tag='', short_ok=False, over=False, maxvar=None, minvar=1):
        self.bit = bit
        self.cfg = cfg
        self.key = 'DE%d' % bit
        self.derived = set()
        self.pds = {}
        ft = cfg['field_type']
        pt = cfg.get('field_python_type')
        proc = cfg.get('field_processor')
        w = cfg.get('field_length', 0)
        self.proc = proc
        name = 'de%d%s' % (bit, tag)
        self.witness = None
        if proc == 'ICC':
            data = choose(name + '_icc', ICC_FAMILY)
            self.value = data
            self.expect = data
            self.kind = 'icc'
            self.derived = set(icc_reference(data))
            self.witness = lambda ev: data
        elif pt in ('int', 'long'):
            n = sym_int(name, 0, 10 ** w - 1)
            self.value = n
            self.expect = n
            self.kind = 'num'
            self.witness = lambda ev: ev(n)
        elif pt == 'decimal':
            import decimal
            fam = ['0', '0.00', '1', '12.50', '99999.999', '0.5', '1E+2', '2.5E+3', '0.0000001', '1E-3']
            if ft != 'FIXED' or w >= 31:
                # more significant digits than the default decimal context keeps (28): the value is carried as text, nothing may round it
                fam = fam + ['1234567890123456789012345678.9', '9' * 30, '100000000000000000000000000001']
            dv = decimal.Decimal(choose(name + '_dec', fam))
            self.value = dv
            self.expect = dv
            self.kind = 'dec'
            self.witness = lambda ev: {'decimal': str(dv)}
        elif pt == 'datetime':
            d = SymDate(name, fmt=cfg.get('field_date_format', '%y%m%d'))
            self.value = d
            self.expect = d
            self.kind = 'date'
            self.witness = lambda ev: d.witness(ev)
        elif proc == 'PDS':
            # a carrier given directly: one well-formed sub-element  tag(4) len(3) value
            L = sym_int(name + '_pdslen', 0, 200 if maxvar is None else min(maxvar, 992))
            src = Source(name + '_pds', 't', L)
            v = src.rope() if not (isinstance(L, int) and L == 0) else ''
            t = '0%03d' % bit
            self.value = cat('t', t, mk('t', [Num(L, 3)]), v)
            self.expect = self.value
            self.kind = 'var'
            self.pds = {'PDS' + t: v}
            self.derived = {'PDS' + t}
            self.witness = lambda ev: concretize(self.value, ev)
        elif ft == 'FIXED':
            if short_ok:
                L = sym_int(name + '_len', 0, w)
            else:
                L = w
            src = Source(name, 't', L)
            self.value = src.rope() if not (isinstance(L, int) and L == 0) else ''
            self.expect = self.value
            self.kind = 'fixed'
            self.L = L
            self.witness = lambda ev: concretize(self.value, ev)
        else:
            top = 10 ** flen(cfg) - 1
            hi = top + 25 if over else (top if maxvar is None else min(top, maxvar))
            L = sym_int(name + '_len', minvar, hi)
            src = Source(name, 't', L)
            self.value = src.rope()
            self.expect = self.value
            self.kind = 'var'
            self.L = L
            self.witness = lambda ev: concretize(self.value, ev)
            if proc == 'DE43':
                self.derived = {'DE43_NAME', 'DE43_ADDRESS', 'DE43_SUBURB', 'DE43_POSTCODE', 'DE43_STATE', 'DE43_COUNTRY'}
        self.src_len = getattr(self, 'L', None)

    def layout(self, enc):
        """reference wire rendering (bytes rope) per the documentation"""
        cfg = self.cfg
        w = cfg.get('field_length', 0)
        if self.kind == 'icc':
            return cat('b', ('%03d' % len(self.value)).encode(enc), self.value)
        if self.kind == 'num':
            return mk('t', [Num(self.value, w)]).encode(enc)
        if self.kind == 'dec':
            txt = format(self.value, '0%df' % w)
            n = flen(cfg)
            return (('%0*d' % (n, len(txt))) if n else '').encode(enc) + txt.encode(enc)
        if self.kind == 'date':
            return self.value.__sformat__(cfg.get('field_date_format', '%y%m%d')).encode(enc)
        if self.kind == 'fixed':
            L = rlen(self.value)
            v = self.value.encode(enc) if isinstance(self.value, (Rope, str)) else self.value
            if same_int(L, w):
                return v
            return cat('b', v, mk('b', [Fill(' '.encode(enc), w - L)]))
        n = flen(cfg)
        return cat('b', mk('t', [Num(rlen(self.value), n)]).encode(enc), self.value.encode(enc))


class PdsElem:
    """a PDSxxxx entry of the message dict (packed into the carrier elements by the writer)"""
    kind = 'var'
    proc = None
    pds = {}
    bit = 0
    src_len = None

    def __init__(self, key, tag='', maxvar=None):
        self.key = key
        self.cfg = {'field_type': 'PDS'}
        n = sym_int(key.lower() + tag + '_len', 0, min(maxvar or 300, 992))
        src = Source(key.lower() + tag, 't', n)
        self.value = src.rope() if not (isinstance(n, int) and n == 0) else ''
        self.expect = self.value
        self.derived = {'DE%d' % c for c in PDS_CARRIERS}
        self.witness = lambda ev: concretize(self.value, ev) if isinstance(self.value, Rope) else self.value


def configured_bits():
    return sorted(int(k) for k in bit_config() if int(k) > 1)


def elem_class(cfg):
    pt = cfg.get('field_python_type')
    if cfg.get('field_processor'):
        return cfg['field_processor']
    if pt in ('int', 'long'):
        return 'num'
    if pt == 'datetime':
        return 'date'
    return cfg['field_type']


def build_message(bits, mti='1240', cfgs=None, special_only=None, **kw):
    """special_only: index of the one element that gets the boundary options (short fixed / over-long variable);
    keeps the number of paths linear in the number of elements"""
    cfgs = cfgs or bit_config()
    pds_keys = [b for b in bits if isinstance(b, str)]
    bits = [b for b in bits if not isinstance(b, str)]
    if special_only is None:
        elems = [Elem(b, cfgs[str(b)], **kw) for b in bits]
    else:
        plain = {k: v for k, v in kw.items() if k not in ('short_ok', 'over', 'minvar')}
        elems = [Elem(b, cfgs[str(b)], **(kw if i == special_only else plain)) for i, b in enumerate(bits)]
    elems += [PdsElem(k, tag=kw.get('tag', ''), maxvar=kw.get('maxvar')) for k in pds_keys]
    msg = {'MTI': mti}
    for e in elems:
        msg[e.key] = e.value
    return msg, elems


def reference_bytes(mti, elems, enc, hex_bitmap):
    bm = bitmap_bytes([e.bit for e in elems])
    if hex_bitmap:
        bm = binascii.hexlify(bm)
    parts = [mti.encode(enc), bm] + [e.layout(enc) for e in sorted(elems, key=lambda e: e.bit)]
    return cat('b', *parts)


def msg_witness(msg, elems, ev):
    """concrete dict (JSON-able) denoted by the symbolic message under the model"""
    out = {'MTI': msg['MTI']}
    for e in elems:
        out[e.key] = e.witness(ev)
    return out


ALLOWED_EXTRA_PREFIXES = ('PDS', 'TAG', 'DE43_')
