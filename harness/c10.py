"""C10 -- a bad record is reported with its own record number and raw bytes"""
import contextlib
import io
import struct
from vsym.runner import Ob
from .common import *
from .isomsg import *
from .ipmfile import *

PROPERTY = 'C10'
DEBUG_LOG = ['message/latin_1/vbs', 'framing/latin_1/1014']      # obligations that are also explored with debug logging switched on
PYTHON_O = ['framing/latin_1/vbs', 'message/latin_1/1014']      # obligations that are also explored with the modules compiled as under python -O
ASSUMPTIONS = [
    'files of n records; the records before the fault are well-formed messages of symbolic length (MTI + DE2 / DE3+DE63), the fault position k is '
    'explored exhaustively; framing faults have symbolic parameters (cut offset, oversize length), message-level faults are concrete bodies per kind '
    '(those kinds are decided in general by C07/C08)',
    'print() inside print_exception_details is captured; hexdump is the vendored third-party function running on concretised bytes',
]


def bad_bodies(enc):
    bm = bitmap_bytes
    def e(s):
        try:
            return s.encode(enc)
        except UnicodeEncodeError:
            return s.encode('latin_1')          # kinds with characters outside the codec are not used under that codec
    return {
        'bad-mti': e('12X0') + bm([2]) + e('0512345'),
        'unknown-bit': e('1240') + bm([2, 7]) + e('0512345'),
        'bad-field-length': e('1240') + bm([2]) + e('XX12345'),
        'bad-field-length-superscript': e('1240') + bm([2]) + e('0\xb212345'),
        'bad-typed-value': e('1240') + bm([4]) + e('00000000ABCD'),
        'bad-pds': e('1240') + bm([48]) + e('0070001XX1'),
        'bad-icc': e('1240') + bm([55]) + e('001') + b'\x9f',
        'short-header': e('1240') + b'\x00\x01',
        'trailing-byte': e('1240') + bm([3]) + e('0000001'),
        'pds-leftover-1': e('1240') + bm([48]) + e('0090001001YZ'),
        'pds-leftover-3': e('1240') + bm([48]) + e('0110001001Y015'),
        'pds-leftover-6': e('1240') + bm([48]) + e('0140001001Y015800'),
        'pds-value-overrun': e('1240') + bm([48]) + e('0090001009AB'),
        'negative-length': e('1240') + bm([2]) + e('-112345'),
        'length-past-end': e('1240') + bm([2]) + e('0912345'),
        'fixed-field-short': e('1240') + bm([3]) + e('00000'),
        'bad-date': e('1240') + bm([12]) + e('991332256199'),
        'unknown-bit-primary-bitmap-only': e('1240') + bm([7], False) + e('0512345'),
        'bad-value-primary-bitmap-only': e('1240') + bm([4], False) + e('00000000ABCD'),
        'unknown-bit-no-low-elements': e('1240') + bm([9 + 2], False) + e('12345678'),
        'undecodable-mti': b'\xff\xfe12' + bm([2]) + e('0512345'),
        'bad-typed-value-long-record': e('1240') + bm([4, 72]) + e('00000000ABCD') + e('999') + e('X' * 999),
    }


def _funcs():
    m = M().mciipm
    return [m.VbsReader.__next__, m.IpmReader.__next__, m.Unblock1014.read, M().cardutil.CardutilError.__init__]


def _good(i, enc, maxvar=300, big=False):
    if big:
        # a record that spans several blocks: three variable elements of up to 999 characters each
        msg, elems = build_message([63, 72, 111], tag='_g%d' % i, maxvar=None)
        return msg, elems
    msg, elems = build_message([2] if i % 2 == 0 else [3, 63], tag='_g%d' % i, maxvar=maxvar)
    return msg, elems


def fault(nmax, kinds, enc, blocked, big_first=False, kmax=None):
    def h():
        core.FUEL.set(24)
        m = M().mciipm
        iso = M().iso8583
        n = choose('n', list(range(1, nmax + 1)))
        k = choose('k', list(range(1, (n if kmax is None else min(n, kmax)) + 1)))
        kind = choose('kind', kinds)
        f = RopeFile()
        w = m.VbsWriter(f, blocked=blocked)
        goods = []
        raw_k = None
        sym = {}
        for i in range(1, n + 1):
            if i == k and kind not in ('truncated',):
                if kind == 'oversize':
                    L = sym_int('oversize', 6001, 0xFFFFFFFF)
                    sym['L'] = L
                    pre = mk('b', [U32(L, '>I')])
                    w.out_file.write(pre)
                    w.out_file.write(b'1240' + bitmap_bytes([2]) + b'0512345')
                    raw_k = pre
                else:
                    body = bad_bodies(enc)[kind]
                    w.write(body)
                    raw_k = struct.pack('>I', len(body)) + body
                goods.append(None)
            else:
                msg, elems = _good(i, enc, 800 if 'truncated' in kinds else 300, big=(big_first and i == 1))
                try:
                    body = iso.dumps(dict(msg), encoding=enc)
                except UnicodeEncodeError:
                    raise core.PathAbort('good record not representable in the codec of this obligation')
                w.write(body)
                goods.append((msg, elems, body))
        w.close()
        data = f.getvalue()
        if kind == 'truncated':
            # cut the file inside the body of record k (after its length prefix, before its end)
            start = 0
            for i in range(1, k):
                start = start + 4 + rlen(goods[i - 1][2])
            blen = rlen(goods[k - 1][2])
            if blocked:
                # the file is cut at any byte t between the first and the last body byte of record k -- including the two trailer
                # bytes of a block the record spans
                p0 = start + 4
                p1 = start + 4 + blen
                f0 = (p0 // 1012) * 1014 + p0 % 1012
                f1 = (p1 // 1012) * 1014 + p1 % 1012
                t = sym_int('t', 0)
                assume(t >= f0)
                assume(t < f1)
                avail = (t // 1014) * 1012 + core.s_min(t % 1014, 1012)
                cutp = avail - p0
                assume(cutp < blen)            # the record must really be incomplete
                assume(cutp >= 0)
                sym['t'] = t
            else:
                cutp = sym_int('cut', 0)
                assume(cutp < blen)
                t = start + 4 + cutp
            sym['cut'] = cutp
            data = sl(data, 0, t)
            raw_k = cat('b', mk('b', [U32(blen, '>I')]), sl(goods[k - 1][2], 0, cutp))

        def rp():
            return {'kind': 'fault', 'args': {'n': n, 'k': k, 'fault': kind, 'enc': enc, 'blocked': blocked,
                                              'lens': [ev(rlen(g[2])) - 22 if g else None for g in goods],
                                              'goods': [msg_witness(g[0], g[1], ev) if g else None for g in goods], 't': ev(sym.get('t')) if 't' in sym else None,
                                              'L': ev(sym.get('L')) if 'L' in sym else None, 'cut': ev(sym.get('cut')) if 'cut' in sym else None}}
        core.set_fallback(rp, 'C10/concretised')
        rd = m.IpmReader(RopeFile(data), encoding=enc, blocked=blocked)
        got = []
        err = None
        with guard('IpmReader', 'C10/exception', rp, allow=(m.MciIpmDataError,)):
            try:
                for d in rd:
                    core.FUEL.set(24)
                    got.append(d)
                    if len(got) > n:
                        break
            except m.MciIpmDataError as e:
                err = e
        require(err is not None, 'no error raised for the bad record', key='C10/no-error', replay=rp)
        require(len(got) == k - 1, 'delivered %d records before the error, expected %d' % (len(got), k - 1), key='C10/delivered', replay=rp)
        for i, d in enumerate(got):
            compare_record(d, goods[i][0], goods[i][1], 'C10/delivered', rp, 'record %d: ' % (i + 1))
        level = 'framing' if kind in ('truncated', 'oversize') else 'message'
        require(err.record_number == k, 'error names record %s, the bad record is %d' % (err.record_number, k), key='C10/record-number/' + level, replay=rp)
        ctx = err.binary_context_data
        require(ctx is not None, 'no context data', key='C10/context', replay=rp)
        req_eq(ctx, raw_k, 'context data are not the raw bytes of the bad record', key='C10/context', replay=rp)
        # operator message
        e2 = M().cardutil.CardutilError('x', record_number=err.record_number, binary_context_data=b'\x00')
        buf = io.StringIO()
        cli = M().cli
        with contextlib.redirect_stdout(buf):
            cli.print_exception_details(e2)
        require('Error detected in record %d\n' % k in buf.getvalue(), 'operator message does not name record %d' % k, key='C10/message', replay=rp)
        return {'sample': {'n': n, 'k': k, 'kind': kind, 'reported': err.record_number}, 'replay': rp()}
    return h


def two_step(enc, blocked):
    """some records taken with next(), the rest with a for loop (iter() is called again): the error must still name record k"""
    def h():
        core.FUEL.set(24)
        m = M().mciipm
        iso = M().iso8583
        pre = choose('taken_first', [1, 2])
        k = choose('k', [pre + 1, pre + 2])
        kind = choose('kind', ['bad-mti', 'bad-typed-value', 'oversize', 'truncated'])
        n = k
        f = RopeFile()
        w = m.VbsWriter(f, blocked=blocked)
        stream = 0
        for i in range(1, n + 1):
            if i == k and kind == 'oversize':
                w.out_file.write(struct.pack('>I', 70000))
            elif i == k and kind != 'truncated':
                w.write(bad_bodies(enc)[kind])
            else:
                msg, elems = _good(i, enc, 50)
                body = iso.dumps(dict(msg), encoding=enc)
                stream = stream + 4 + rlen(body)
                w.write(body)
        w.close()
        data = f.getvalue()
        if kind == 'truncated':
            data = sl(data, 0, stream - 3)        # all records fit the first block: file offset == stream offset; the last record loses 3 bytes
        rp = {'kind': 'twostep', 'args': {'pre': pre, 'k': k, 'fault': kind, 'enc': enc, 'blocked': blocked}}
        core.set_fallback(rp, 'C10/concretised')
        rd = m.IpmReader(RopeFile(data), encoding=enc, blocked=blocked)
        err = None
        with guard('IpmReader', 'C10/exception', rp, allow=(m.MciIpmDataError,)):
            for _ in range(pre):
                next(rd)
            try:
                for d in rd:
                    core.FUEL.set(24)
            except m.MciIpmDataError as e:
                err = e
        require(err is not None, 'no error raised', key='C10/two-step', replay=rp)
        require(err.record_number == k, 'bad record %d reported as %s after taking %d records with next()' % (k, err.record_number, pre), key='C10/two-step', replay=rp)
        return {'sample': dict(rp['args'], reported=err.record_number), 'replay': rp}
    return h


def two_faults(enc, blocked):
    """two bad records in one file; the consumer catches the first error and keeps iterating"""
    def h():
        core.FUEL.set(24)
        m = M().mciipm
        iso = M().iso8583
        kinds = [x for x in bad_bodies(enc) if not x.endswith('-long-record')]
        k1 = choose('k1', [1, 2])
        k2 = choose('k2', [k1 + 1, k1 + 2])
        kind1 = choose('kind1', kinds)
        kind2 = choose('kind2', ['bad-mti', 'bad-typed-value', 'oversize'])
        n = k2 + 1
        f = RopeFile()
        w = m.VbsWriter(f, blocked=blocked)
        for i in range(1, n + 1):
            if i == k1:
                w.write(bad_bodies(enc)[kind1])
            elif i == k2:
                if kind2 == 'oversize':
                    w.out_file.write(struct.pack('>I', 70000))
                else:
                    w.write(bad_bodies(enc)[kind2])
            else:
                msg, elems = _good(i, enc)
                w.write(iso.dumps(dict(msg), encoding=enc))
        w.close()
        rp = {'kind': 'twofaults', 'args': {'k1': k1, 'k2': k2, 'kind1': kind1, 'kind2': kind2, 'enc': enc, 'blocked': blocked}}
        core.set_fallback(rp, 'C10/concretised')
        rd = m.IpmReader(RopeFile(f.getvalue()), encoding=enc, blocked=blocked)
        errors = []
        delivered = 0
        with guard('IpmReader', 'C10/exception', rp, allow=(m.MciIpmDataError,)):
            for _ in range(n + 2):
                core.FUEL.set(24)
                try:
                    next(rd)
                    delivered += 1
                except StopIteration:
                    break
                except m.MciIpmDataError as e:
                    errors.append(e.record_number)
                    if len(errors) == 2:
                        break
        require(len(errors) == 2, 'expected two errors, got %s' % errors, key='C10/two-faults', replay=rp)
        require(errors[0] == k1, 'first bad record is %d, reported %s' % (k1, errors[0]), key='C10/two-faults', replay=rp)
        require(errors[1] == k2, 'second bad record is %d, reported %s' % (k2, errors[1]), key='C10/two-faults', replay=rp)
        return {'sample': dict(rp['args'], reported=errors), 'replay': rp}
    return h


BIG = {'MTI': '1240', 'DE54': 'A' * 999, 'DE63': 'B' * 999, 'DE72': 'C' * 999, 'DE111': 'D' * 999, 'DE127': 'E' * 999,
       'DE123': '0001992' + 'F' * 992, 'DE124': '0002992' + 'G' * 992}


def configured_max(blocked):
    """the maximum record length is a run-time setting: after it is changed, "oversize" means "longer than the new value" - an error for the
    right record when it was lowered, no error for a record that fits when it was raised"""
    def h():
        core.FUEL.set(60)
        m = M().mciipm
        iso = M().iso8583
        cfg = M().config.config
        case = choose('case', ['lowered-to-300', 'raised-to-10000'])
        f = RopeFile()
        w = m.IpmWriter(f, blocked=blocked)
        w.write({'MTI': '1240', 'DE2': '4444555566667777'})
        if case == 'lowered-to-300':
            n = sym_int('de63_len', 200, 900)
            v = Source('de63', 't', n).rope()
            w.write({'MTI': '1240', 'DE63': v})
            w.write({'MTI': '1240', 'DE3': '000000'})
            reclen = 4 + 16 + 3 + n
            rp = (lambda: {'kind': 'configured_max', 'args': {'case': case, 'blocked': blocked, 'n': ev(n)}})
            newmax = 300
        else:
            w.write(dict(BIG))
            m.VbsWriter.write(w, bad_bodies('latin_1')['bad-mti'])
            rp = (lambda: {'kind': 'configured_max', 'args': {'case': case, 'blocked': blocked, 'n': 0}})
            newmax = 10000
        w.close()
        core.set_fallback(rp, 'C10/concretised')
        old = cfg.get('MAX_VBS_RECORD_LENGTH', 6000)
        cfg['MAX_VBS_RECORD_LENGTH'] = newmax
        got, err = [], None
        try:
            with guard('IpmReader', 'C10/exception', rp, allow=(m.MciIpmDataError,)):
                try:
                    for d in m.IpmReader(RopeFile(f.getvalue()), blocked=blocked):
                        core.FUEL.set(60)
                        got.append(d)
                except m.MciIpmDataError as e:
                    err = e
        finally:
            cfg['MAX_VBS_RECORD_LENGTH'] = old
        if case == 'lowered-to-300':
            if reclen > 300:
                require(err is not None and len(got) == 1, 'record 2 is longer than the configured maximum (300): %d records delivered, error %s' % (len(got), err is not None),
                        key='C10/configured-max', replay=rp)
                require(err.record_number == 2, 'oversize record 2 reported as record %s' % (err.record_number,), key='C10/record-number', replay=rp)
            else:
                require(err is None and len(got) == 3, 'all three records fit the configured maximum', key='C10/configured-max', replay=rp)
        else:
            require(len(got) == 2, 'record 2 (%d bytes) fits the configured maximum of 10000 and has to be delivered: %d delivered' % (7034, len(got)),
                    key='C10/configured-max', replay=rp)
            require(err is not None and err.record_number == 3, 'the bad record 3 is reported as record %s' % (getattr(err, 'record_number', None),),
                    key='C10/record-number', replay=rp)
        return {'sample': {'case': case, 'delivered': len(got), 'error_at': getattr(err, 'record_number', None)}, 'replay': rp()}
    return h


def obligations(tier):
    q = tier == 'quick'
    nmax = 3 if q else 4
    msgkinds = [x for x in bad_bodies('latin_1') if not x.endswith('-long-record')]
    obs = []
    for enc in (('latin_1', 'cp500') if q else CODECS):
        for blocked in (False, True):
            tag = '%s/%s' % (enc, '1014' if blocked else 'vbs')
            obs.append(Ob('framing/' + tag, fault(nmax, ['truncated', 'oversize'], enc, blocked), 600,
                          'n in 1..%d records, every k, truncated record (every cut offset inside the body) and oversize length (6001..2^32-1)' % nmax, _funcs))
            obs.append(Ob('message/' + tag, fault(nmax, msgkinds, enc, blocked), 600,
                          'n in 1..%d records, every k, message-level faults %s' % (nmax, msgkinds), _funcs))
    obs.append(Ob('message/large-first-record/latin_1/1014', fault(2, ['bad-mti', 'bad-field-length'], 'latin_1', True, big_first=True), 900,
                  'blocked file whose first (good) record has 29..3026 bytes (it may span up to four blocks), the bad record after it', _funcs))
    for blocked in (False, True):
        obs.append(Ob('message/long-bad-record/latin_1/' + ('1014' if blocked else 'vbs'),
                      fault(2, ['bad-typed-value-long-record'], 'latin_1', blocked, kmax=1), 600,
                      'a bad first record of 1034 bytes (longer than one block), alone or followed by a good record: the context data is the whole record', _funcs))
    obs.append(Ob('message/ascii/vbs', fault(2 if q else 3, ['undecodable-mti', 'bad-mti', 'bad-pds', 'bad-typed-value'], 'ascii', False), 600,
                  'reader with the strict ascii codec: a record whose MTI bytes cannot be decoded (and three other kinds), every k', _funcs))
    for blocked in (False, True):
        obs.append(Ob('configured-max/%s' % ('1014' if blocked else 'vbs'), configured_max(blocked), 300,
                      'MAX_VBS_RECORD_LENGTH changed at run time: lowered to 300 with a second record of 223..923 bytes; raised to 10000 with a second record '
                      'of 7034 bytes followed by a bad record', _funcs))
    for blocked in (False, True):
        obs.append(Ob('two-step/latin_1/%s' % ('1014' if blocked else 'vbs'), two_step('latin_1', blocked), 300,
                      'one or two records taken with next(), the rest with a for loop; fault kinds bad MTI / bad value / oversize / truncated', _funcs))
        obs.append(Ob('two-faults/latin_1/%s' % ('1014' if blocked else 'vbs'), two_faults('latin_1', blocked), 300,
                      'two bad records (positions k1 < k2, every message-level kind first, then bad MTI / bad value / oversize), consumer continues after the first error', _funcs))
    return obs
