"""C03 -- VBS framing: any record list survives write then read, with byte-exact layout"""
from vsym.runner import Ob
from .common import *

PROPERTY = 'C03'
DEBUG_LOG = ['rt1/blocked/class', 'rt1/unblocked/class', 'rt1/blocked/func']      # obligations that are also explored with debug logging switched on
PYTHON_O = ['rt1/blocked/class', 'rt1/unblocked/func', 'rt1/unblocked/class']      # obligations that are also explored with the modules compiled as under python -O
ASSUMPTIONS = [
    'file object = RopeFile (io.BytesIO semantics); io.BytesIO inside cardutil is that class',
    'record content is opaque (the framing code never inspects it), so 0x00 / 0x40 runs are contents like any other',
    'struct.pack(">I", n) is modelled as an atomic 4-byte piece U32(n); unpacking recovers n only from a whole piece of the same format',
]
MAXREC = 6000


def _funcs():
    m = M().mciipm
    return [m.VbsWriter.write, m.VbsWriter.close, m.VbsWriter.__init__, m.VbsReader.__next__, m.VbsReader.__init__,
            m.Block1014.write, m.Block1014.finalise, m.Block1014.seek, m.Unblock1014.read, m.vbs_list_to_bytes, m.vbs_bytes_to_list]


def stream_of(recs):
    """reference: [4-byte big-endian length, body]* then a zero length"""
    ps = []
    for r in recs:
        ps.append(mk('b', [U32(rlen(r), '>I')]))
        ps.append(r)
    ps.append(b'\x00\x00\x00\x00')
    return cat('b', *ps)


def roundtrip(bounds, blocked, api, lo=1):
    nblocks = (sum(bounds) + 4 * len(bounds) + 4) // 1012 + 2

    def h():
        core.FUEL.set(nblocks + 4)
        m = M().mciipm
        ns = [sym_int('len%d' % i, lo, b) for i, b in enumerate(bounds)]
        recs = [Source('rec%d' % i, 'b', n).rope() for i, n in enumerate(ns)]
        def rp():
            return {'kind': 'roundtrip', 'args': {'lengths': [ev(n) for n in ns], 'blocked': blocked, 'api': api,
                                                 'records': [concretize(r, ev) for r in recs]}}
        core.set_fallback(rp, 'C03/concretised')
        if api == 'with-close':
            # explicit close inside the with block: the writer is finalised once, the second close changes nothing
            f = RopeFile()
            with m.VbsWriter(f, blocked=blocked) as w:
                for r in recs:
                    w.write(r)
                w.close()
            data = f.getvalue()
            require(same_int(f.pos, 0), 'file not rewound by close', key='C03/rewind', replay=rp)
        elif api == 'class':
            f = RopeFile()
            w = m.VbsWriter(f, blocked=blocked)
            for r in recs:
                w.write(r)
            w.close()
            data = f.getvalue()
            require(same_int(f.pos, 0), 'file not rewound by close', key='C03/rewind', replay=rp)
        elif api == 'func-iter':
            # the parameter is documented as an iterable of records: a one-shot iterator / generator is as good as a list
            data = m.vbs_list_to_bytes(iter(list(recs)) if len(recs) == 1 else (r for r in recs), blocked=blocked)
        else:
            data = m.vbs_list_to_bytes(recs, blocked=blocked)
            core.FUEL.set(nblocks + 4)
            again = m.vbs_list_to_bytes(recs, blocked=blocked)
            req_eq(again, data, 'a second call of vbs_list_to_bytes with the same records returns something else', key='C03/second-call', replay=rp)
        E = stream_of(recs)
        if blocked:
            check_blocked(data, E, True, nblocks, 'blocked file', key='C03/layout-blocked', replay=rp)
        else:
            req_eq(data, E, 'unblocked file is not [len32 body]* 0', key='C03/layout', replay=rp)
        core.FUEL.set(nblocks + 4)
        try:
            if api in ('class', 'with-close'):
                got = []
                rd = m.VbsReader(f, blocked=blocked)
                if len(recs) >= 2:
                    got.append(next(rd))            # a reader that was partly consumed with next() continues in a for loop where it stands
                for rec in rd:
                    core.FUEL.set(nblocks + 4)
                    got.append(rec)
                    if len(got) > len(recs):
                        break
            else:
                got = m.vbs_bytes_to_list(data, blocked=blocked)
        except m.MciIpmDataError as e:
            fail('reader refused the writer\'s output: %s' % (e.args[:1],), key='C03/read-error', replay=rp)
        require(len(got) == len(recs), 'read %d records, wrote %d' % (len(got), len(recs)), key='C03/count', replay=rp)
        for i, (a, b) in enumerate(zip(got, recs)):
            req_eq(a, b, 'record %d differs' % (i + 1), key='C03/content', replay=rp)
        return {'sample': {'lengths': [ev(n) for n in ns], 'blocked': blocked, 'api': api, 'file_size': ev(rlen(data))}, 'replay': rp()}
    return h


def default_reader(nmax):
    """vbs_bytes_to_list(data) with no options must read plain VBS data as plain VBS, whatever the content looks like"""
    def h():
        core.FUEL.set(12)
        m = M().mciipm
        n = sym_int('len0', 1, nmax)
        rec = Source('rec0', 'b', n).rope()

        def rp():
            return {'kind': 'default_reader', 'args': {'record': concretize(rec, ev)}}
        core.set_fallback(rp, 'C03/concretised')
        data = m.vbs_list_to_bytes([rec])
        with guard('vbs_bytes_to_list', 'C03/default-reader', rp, allow=(m.MciIpmDataError,)):
            try:
                got = m.vbs_bytes_to_list(data)
            except m.MciIpmDataError as e:
                fail('plain VBS data refused by vbs_bytes_to_list: %s' % (e.args[:1],), key='C03/default-reader', replay=rp)
        require(len(got) == 1, 'read %d records' % len(got), key='C03/default-reader', replay=rp)
        req_eq(got[0], rec, 'record differs', key='C03/default-reader', replay=rp)
        return {'sample': {'len': ev(n)}, 'replay': rp()}
    return h


def configured_max(newmax, blocked):
    """the maximum record length is read from the configuration: raising it at run time must take effect"""
    def h():
        core.FUEL.set(3 * (newmax // 1012) + 16)
        m = M().mciipm
        cfg = M().config.config
        old = cfg.get('MAX_VBS_RECORD_LENGTH', 6000)
        n = sym_int('len0', 1, newmax)
        rec = Source('rec0', 'b', n).rope()
        rp = {'kind': 'configured_max', 'args': {'newmax': newmax, 'blocked': blocked, 'length': ev(n)}}
        core.set_fallback(rp, 'C03/concretised')
        cfg['MAX_VBS_RECORD_LENGTH'] = newmax
        try:
            f = RopeFile()
            w = m.VbsWriter(f, blocked=blocked)
            w.write(rec)
            w.close()
            with guard('VbsReader', 'C03/configured-max', rp, allow=(m.MciIpmDataError,)):
                try:
                    got = list(m.VbsReader(f, blocked=blocked))
                except m.MciIpmDataError as e:
                    fail('record within the configured maximum refused', key='C03/configured-max', replay=rp)
        finally:
            cfg['MAX_VBS_RECORD_LENGTH'] = old
        require(len(got) == 1, 'read %d records' % len(got), key='C03/configured-max', replay=rp)
        req_eq(got[0], rec, 'record differs', key='C03/configured-max', replay=rp)
        return {'sample': rp['args'], 'replay': rp}
    return h


def obligations(tier):
    q = tier == 'quick'
    obs = []
    for blocked in (False, True):
        for api in ('class', 'func'):
            tag = '%s/%s' % ('blocked' if blocked else 'unblocked', api)
            obs.append(Ob('rt1/' + tag, roundtrip([MAXREC], blocked, api), 200,
                          'one record, every length 1..6000', _funcs, 'records above the configured maximum (6000)'))
            b2 = [3000, 3000] if q else [6000, 6000]
            obs.append(Ob('rt2/' + tag, roundtrip(b2, blocked, api), 400,
                          'two records, every pair of lengths 1..%d' % b2[0], _funcs))
    for blocked in (False, True):
        obs.append(Ob('rt1-with-close/%s' % ('blocked' if blocked else 'unblocked'), roundtrip([MAXREC if not q else 2500], blocked, 'with-close'), 300,
                      'one record written inside `with VbsWriter(...)` with an explicit close() before the block ends (close reached twice)', _funcs))
    for blocked in (False, True):
        obs.append(Ob('rt2/%s/func-iter' % ('blocked' if blocked else 'unblocked'), roundtrip([1200, 1200], blocked, 'func-iter'), 300,
                      'two records of 1..1200 bytes handed to vbs_list_to_bytes as a generator (one record: as an iterator)', _funcs))
    obs.append(Ob('default-reader/unblocked', default_reader(3000 if q else 6000), 300,
                  'one record of any length and any content (bytes at the offsets a blocking probe would inspect go through the peek table), '
                  'written and read back through the convenience functions with no options', _funcs))
    obs.append(Ob('configured-max/8000/unblocked', configured_max(8000, False), 300,
                  'MAX_VBS_RECORD_LENGTH raised to 8000 at run time, one record of every length 1..8000', _funcs))
    if not q:
        obs.append(Ob('configured-max/8000/blocked', configured_max(8000, True), 600, 'same, 1014 blocked', _funcs))
        for blocked in (False, True):
            obs.append(Ob('rt3/%s/class' % ('blocked' if blocked else 'unblocked'), roundtrip([2500, 2500, 2500], blocked, 'class'), 900,
                          'three records, lengths 1..2500 each', _funcs))
    return obs
