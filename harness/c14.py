"""C14 -- PVV, key check value and key-part combination match the published algorithms"""
import itertools
import z3
from vsym.runner import Ob
from vsym import symstr, cryptostub
from vsym.symstr import SymStr, SymBytes, HexInt, HexNib, hex_string, concretize_str
from .common import core, sym_int, assume, require, fail, ev, guard, s_and, s_or, s_not
from vsym.core import choose, mk_bool
from .pinmods import P
from .c13 import nibs_eq

PROPERTY = 'C14'
PYTHON_O = ['tsp/all-lengths', 'pvv/mixin/8-symbolic-hex-digits', 'zmk/2-components']      # obligations that are also explored with the modules compiled as under python -O
TECHNIQUE = 'the real PVV / key functions executed on strings of 4-bit-vector characters with an uninterpreted cipher (z3 QF_BV+UF); decimalisation explored over every digit/letter pattern of the ciphertext'
ASSUMPTIONS = [
    'the 3DES encryption is an uninterpreted function: its 64-bit result is an arbitrary value, so the decimalisation is checked for every possible '
    'ciphertext (within the stated pattern bound); that the function is DES/3DES (FIPS known answers) is outside this technique',
    'PIN length 4..12, PAN length 13..19, key index 0..9 enumerated; all digits symbolic',
]


def _funcs():
    pb = P().pinblock
    k = P().key
    return [pb._get_tsp, pb.calculate_pvv, pb.VisaPVVPinBlockMixin.to_pvv, k.get_zone_master_key, k.get_enc_zone_master_key, k.calculate_kcv, k.encrypt_key]


def tsp_nibs(pin, pan, idx):
    """Visa PVV transformed security parameter from the specification: 11 rightmost PAN digits excluding the check digit,
    the key index, the leftmost four PIN digits"""
    return [c.t for c in pan.cells[-12:-1]] + [z3.BitVecVal(idx, 4)] + [c.t for c in pin.cells[:4]]


def spec_pvv(ct):
    """independent two-pass decimalisation of 16 hex digits (If-chains, no forking): returns four 8-bit values"""
    dig = [z3.ULE(n, 9) for n in ct]
    one, zero = z3.BitVecVal(1, 8), z3.BitVecVal(0, 8)
    ndig = sum([z3.If(d, one, zero) for d in dig])
    idx_d, idx_l = [], []
    c = zero
    c2 = zero
    for i in range(16):
        idx_d.append(c)
        idx_l.append(c2)
        c = c + z3.If(dig[i], one, zero)
        c2 = c2 + z3.If(dig[i], zero, one)
    outs = []
    for want in range(4):
        val = z3.BitVecVal(255, 8)
        for i in range(16):
            val = z3.If(z3.And(dig[i], idx_d[i] == want), z3.ZeroExt(4, ct[i]), val)
            val = z3.If(z3.And(z3.Not(dig[i]), ndig + idx_l[i] == want), z3.ZeroExt(4, ct[i]) - 10, val)
        outs.append(val)
    return outs


def tsp():
    def h():
        pb = P().pinblock
        lp = choose('pinlen', range(4, 13))
        lc = choose('panlen', range(13, 20))
        idx = choose('idx', range(0, 10))
        pin = hex_string('pin', lp, digits_only=True)
        pan = hex_string('pan', lc, digits_only=True)

        def rp():
            return {'kind': 'tsp', 'args': {'pin': concretize_str(pin, ev), 'pan': concretize_str(pan, ev), 'idx': idx}}
        core.set_fallback(rp, 'C14/concretised')
        with guard('_get_tsp', 'C14/tsp-exception', rp):
            t = pb._get_tsp(pan, idx, pin)
        t = SymStr.of(t)
        want = tsp_nibs(pin, pan, idx)
        require(len(t.cells) == 16, 'transformed security parameter has %d digits, not 16' % len(t.cells), key='C14/tsp/pin%s' % ('>4' if lp > 4 else '4'), replay=rp)
        got = [symstr._nib_of_char(c) for c in t.cells]
        require(nibs_eq(got, want), 'TSP is not (PAN11, key index, PIN4)', key='C14/tsp', replay=rp)
        return {'sample': rp()['args'], 'replay': rp()}
    return h


def pvv(nsym, tails, via, split=None):
    def h():
        pb = P().pinblock
        lp = choose('pinlen', [4] if nsym >= 12 else ([4, 12] if via == 'function' else [7]))
        idx = choose('idx', [1] if nsym >= 12 else ([0, 9] if via == 'function' else [0, 1, 9, None]))
        pin = hex_string('pin', lp, digits_only=True)
        pan = hex_string('pan', 16, digits_only=True)
        key = hex_string('key', 32)
        keyb = key.__sunhexlify__()
        eff = 1 if idx is None else idx            # the documented default key index is 1
        tn = tsp_nibs(pin, pan, eff)
        ctbv = cryptostub.reference_E('3DES', keyb, z3.Concat(*tn))
        ct = HexInt.from_bv(ctbv).nibs
        # bound: the last 16-nsym hex digits of the ciphertext take one of the listed concrete patterns
        if nsym < 16:
            tail = choose('tail', tails)
            for i, c in enumerate(tail):
                assume(ct[nsym + i] == int(c, 16))
        if split is not None:
            # this worker handles one digit/letter pattern of the first four hex digits
            for i in range(4):
                isd = (split >> i) & 1
                assume(z3.ULE(ct[i], 9) if isd else z3.UGT(ct[i], 9))

        def rp():
            return {'kind': 'pvv', 'args': {'pin': concretize_str(pin, ev), 'pan': concretize_str(pan, ev), 'idx': idx, 'key': concretize_str(key, ev),
                                            'ct_model': ''.join(symstr.HEXCH[ev(n)] for n in ct), 'via': via}}
        core.set_fallback(rp, 'C14/concretised')
        with guard('calculate_pvv', 'C14/pvv-exception/pin%s' % ('>4' if lp > 4 else '4'), rp):
            if via == 'function':
                out = pb.calculate_pvv(pin, key, idx, pan)
            else:
                obj = pb.Iso0TDESPinBlockWithVisaPVV(pin, card_number=pan)
                out = obj.to_pvv(key, key_index=idx) if idx is not None else obj.to_pvv(key)
        out = SymStr.of(out)
        require(len(out.cells) == 4, 'PVV has %d digits' % len(out.cells), key='C14/pvv-length', replay=rp)
        spec = spec_pvv(ct)
        conds = []
        for c, s in zip(out.cells, spec):
            n = symstr._nib_of_char(c)
            require(n is not None, 'PVV character is not a digit', key='C14/pvv-digit', replay=rp)
            conds.append(z3.ZeroExt(4, n) == s)
            conds.append(z3.ULE(n, 9))
        require(mk_bool(z3.And(*conds)), 'PVV differs from the Visa two-pass decimalisation', key='C14/pvv-value', replay=rp)
        return {'sample': rp()['args'], 'replay': rp()}
    return h


def leading_zero_pins():
    """PINs that begin with zeros (also longer than four digits): the leftmost four digits go into the TSP as they are"""
    def h():
        pb = P().pinblock
        pin = choose('pin', ['0654', '065432', '000012345678', '0000', '00001', '0100', '007000000'])
        pan = choose('pan', ['5412345678901234', '4111111111111', '6011000990139424123'])
        idx = choose('idx', [0, 1, 9])
        rp = {'kind': 'tsp', 'args': {'pin': pin, 'pan': pan, 'idx': idx}}
        core.set_fallback(rp, 'C14/concretised')
        with guard('_get_tsp', 'C14/tsp-exception', rp):
            t = pb._get_tsp(pan, idx, pin)
        want = pan[-12:-1] + str(idx) + pin[:4]
        require(str(t) == want, 'TSP for PIN %s is %s, the specification gives %s' % (pin, t, want), key='C14/tsp', replay=rp)
        return {'sample': rp['args'], 'replay': rp}
    return h


def two_cards(objects=False):
    """one pin block object without a card number of its own, asked for the PVV of two different cards one after the other"""
    def h():
        pb = P().pinblock
        pin = hex_string('pin', 4, digits_only=True)
        pans = [hex_string('pan%d' % i, 16, digits_only=True) for i in range(2)]
        key = hex_string('key', 32)
        keyb = key.__sunhexlify__()
        cts = []
        for pan in pans:
            ct = HexInt.from_bv(cryptostub.reference_E('3DES', keyb, z3.Concat(*tsp_nibs(pin, pan, 1)))).nibs
            for i in range(4):
                assume(z3.ULE(ct[i], 9))        # bound: both ciphertexts start with four decimal digits (the PVV is those digits) ...
            for i in range(4, 16):
                assume(ct[i] == 15)             # ... followed by twelve times f (other patterns: the pvv/function obligations)
            cts.append(ct)

        def rp():
            return {'kind': 'two_cards', 'args': {'pin': concretize_str(pin, ev), 'pans': [concretize_str(p, ev) for p in pans], 'key': concretize_str(key, ev),
                                                  'objects': objects}}
        core.set_fallback(rp, 'C14/concretised')
        with guard('to_pvv', 'C14/pvv-exception/pin4', rp):
            if objects:
                # two block objects that carry their own card number (same PIN, key and index), asked without the argument
                outs = [pb.Iso0TDESPinBlockWithVisaPVV(pin, card_number=pan).to_pvv(key) for pan in pans]
            else:
                obj = pb.Iso4AESPinBlockWithVisaPVV(pin)
                outs = [obj.to_pvv(key, card_number=pan) for pan in pans]
        for k, (out, ct) in enumerate(zip(outs, cts)):
            out = SymStr.of(out)
            require(len(out.cells) == 4, 'PVV has %d digits' % len(out.cells), key='C14/pvv-length', replay=rp)
            conds = []
            for c, n0 in zip(out.cells, ct[:4]):
                n = symstr._nib_of_char(c)
                require(n is not None, 'PVV character is not a digit', key='C14/pvv-digit', replay=rp)
                conds.append(n == n0)
            require(mk_bool(z3.And(*conds)), 'call %d on the same object did not return the PVV of the card number it was given' % (k + 1),
                    key='C14/pvv-second-card', replay=rp)
        return {'sample': rp()['args'], 'replay': rp()}
    return h


def zmk(nparts, plen=32):
    def h():
        k = P().key
        parts = [hex_string('part%d' % i, plen) for i in range(nparts)]
        extra = {}

        def rp():
            return {'kind': 'zmk', 'args': {'parts': [concretize_str(p, ev) for p in parts],
                                            'master': concretize_str(extra['master'], ev) if 'master' in extra else None,
                                            'kcvkeys': [symstr.concretize_bytes(b, ev).hex() for b in extra.get('kcvkeys', [])]}}
        core.set_fallback(rp, 'C14/concretised')
        with guard('get_zone_master_key', 'C14/zmk-exception', rp):
            clear, kcv = k.get_zone_master_key(*parts)
        want = [z3.BitVecVal(0, 4)] * plen
        for p in parts:
            want = [z3.simplify(a ^ c.t) for a, c in zip(want, p.cells)]
        clear = SymStr.of(clear)
        require(len(clear.cells) == plen, 'combined key has %d hex digits, the components have %d' % (len(clear.cells), plen), key='C14/zmk-xor', replay=rp)
        require(nibs_eq([symstr._nib_of_char(c) for c in clear.cells], want), 'combined key is not the XOR of the components', key='C14/zmk-xor', replay=rp)
        # order independence and cancellation through the real function
        for perm in itertools.permutations(range(nparts)):
            if list(perm) == list(range(nparts)):
                continue
            c2, _ = k.get_zone_master_key(*[parts[i] for i in perm])
            require(SymStr.of(c2) == clear, 'result depends on the order of the components', key='C14/zmk-order', replay=rp)
        c3, _ = k.get_zone_master_key(*(parts + [parts[0], parts[0]]))
        require(SymStr.of(c3) == clear, 'a component given twice does not cancel', key='C14/zmk-cancel', replay=rp)
        # key check value = leading hex digits of E(key, 0)
        keyb = SymBytes(want)
        e0 = HexInt.from_bv(cryptostub.reference_E('3DES', keyb, z3.BitVecVal(0, 64))).nibs
        kc = SymStr.of(kcv)
        require(len(kc.cells) == 6 and nibs_eq([symstr._nib_of_char(c) for c in kc.cells], e0[:6]),
                'key check value is not the first six hex digits of E(key, zeros)', key='C14/kcv', replay=rp)
        e0 = e0 + e0                     # the check value is taken from the encryption of sixteen zero bytes: the block repeats
        for n in (0, 1, 4, 5, 7, 16, 17, 24, 32):
            kn = SymStr.of(k.calculate_kcv(keyb, n) if n else k.calculate_kcv(keyb, 0))
            require(len(kn.cells) == n and nibs_eq([symstr._nib_of_char(c) for c in kn.cells], e0[:n]) if n else len(kn.cells) == 0,
                    'calculate_kcv(kvc_length=%d)' % n, key='C14/kcv', replay=rp)
        # key check value for single-, double- and triple-length keys
        for kb in (8, 16, 24):
            kk = hex_string('kcvkey%d' % kb, 2 * kb).__sunhexlify__()
            extra.setdefault('kcvkeys', []).append(kk)
            ek = HexInt.from_bv(cryptostub.reference_E('3DES', kk, z3.BitVecVal(0, 64))).nibs
            with guard('calculate_kcv', 'C14/kcv-exception', rp):
                got = SymStr.of(k.calculate_kcv(kk))
            require(len(got.cells) == 6 and nibs_eq([symstr._nib_of_char(c) for c in got.cells], ek[:6]),
                    'key check value of a %d-byte key is not the first six hex digits of E(key, zeros)' % kb, key='C14/kcv', replay=rp)
        # encrypted zone key (double- and triple-length master keys)
        master = hex_string('master', choose('masterlen', [32, 48]))
        extra['master'] = master
        with guard('get_enc_zone_master_key', 'C14/zmk-exception', rp):
            enc, kcv2 = k.get_enc_zone_master_key(master, *parts)
        mb = master.__sunhexlify__()
        wantenc = []
        for i in range(0, plen // 2, 8):
            wantenc += HexInt.from_bv(cryptostub.reference_E('3DES', mb, keyb[i:i + 8].bv())).nibs
        en = SymStr.of(enc)
        require(len(en.cells) == plen and nibs_eq([symstr._nib_of_char(c) for c in en.cells], wantenc),
                'encrypted zone key is not the 3DES-ECB encryption of the XOR under the master key', key='C14/enc-zmk', replay=rp)
        require(SymStr.of(kcv2) == kc, 'key check value of the encrypted form differs', key='C14/kcv', replay=rp)
        return {'sample': rp()['args'], 'replay': rp()}
    return h


def obligations(tier):
    q = tier == 'quick'
    obs = [Ob('tsp/all-lengths', tsp(), 300, 'PIN 4..12 x PAN 13..19 x key index 0..9 (630 combinations), all digits', _funcs)]
    tails = ['ffffffff', '00000000', 'a1b2c3d4']
    for t in tails:
        obs.append(Ob('pvv/function/8-symbolic-hex-digits/tail-' + t, pvv(8, [t], 'function'), 600,
                      'ciphertext: first 8 hex digits arbitrary, last 8 = %s; PIN length 4/12, key index 0/9' % t, _funcs,
                      'ciphertexts whose last 8 hex digits are not one of the listed patterns (thorough tier: all 16 digits arbitrary)'))
    obs.append(Ob('pvv/mixin/8-symbolic-hex-digits', pvv(8, tails[:1], 'mixin'), 600, 'same through VisaPVVPinBlockMixin.to_pvv, tail ffffffff, PIN length 7', _funcs))
    for n in (1, 2, 3):
        obs.append(Ob('zmk/%d-components' % n, zmk(n), 300, '%d key components of 32 arbitrary hex digits; master key arbitrary' % n, _funcs))
    for n in ((1, 2) if q else (1, 2, 3)):
        obs.append(Ob('zmk-triple-length/%d-components' % n, zmk(n, 48), 300,
                      '%d key components of 48 arbitrary hex digits (triple-length keys); master key arbitrary' % n, _funcs))
    if not q:
        for s in range(16):
            obs.append(Ob('pvv/function/16-symbolic/pattern-%x' % s, pvv(16, None, 'function', split=s), 3000,
                          'all 16 ciphertext hex digits arbitrary; worker handles digit/letter pattern %s of the first four' % format(s, '04b'), _funcs))
    obs.append(Ob('tsp/leading-zero-pins', leading_zero_pins(), 60, 'seven concrete PINs with leading zeros (4..12 digits) x three PANs x key index 0/1/9', _funcs))
    obs.append(Ob('pvv/mixin/two-objects-own-card-numbers', two_cards(objects=True), 300,
                  'two Iso0 PVV block objects with the same PIN, key and index and different card numbers of their own, to_pvv without the argument', _funcs))
    obs.append(Ob('pvv/mixin/two-cards-one-object', two_cards(), 300,
                  'format-4 block object (no card number of its own): to_pvv for two symbolic 16-digit card numbers in a row; ciphertexts of the pattern dddd ffffffffffff', _funcs))
    return obs
