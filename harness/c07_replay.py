import io
import multiprocessing as mp
import signal


def _watchdog(fn, secs=5):
    def handler(signum, frame):
        raise TimeoutError('watchdog')
    old = signal.signal(signal.SIGALRM, handler)
    signal.alarm(secs)
    try:
        return fn()
    finally:
        signal.alarm(0)
        signal.signal(signal.SIGALRM, old)


def caller_config(iso8583, cfgmode):
    """caller-supplied configurations with a history (shared by the symbolic harness and the replay)"""
    if cfgmode is None:
        return None
    if cfgmode == 'pan':
        return {'2': {'field_type': 'LLVAR', 'field_length': 0, 'field_processor': 'PAN'}, '3': {'field_type': 'FIXED', 'field_length': 6}}
    import copy
    from . import ref
    from .c08_replay import PRIOR_BEFORE, prior_edit
    cfg = copy.deepcopy(PRIOR_BEFORE)
    iso8583.loads(b'1240' + ref.ref_bitmap([2, 3]) + b'0512345' + b'04abcd', iso_config=cfg)
    iso8583.loads(b'1240' + ref.ref_bitmap([3, 14, 38]) + b'02xy' + b'2512' + b'ABCDEF', iso_config=cfg)
    prior_edit(cfg)
    return cfg


def replay_loads(data, enc, hexbm, cfgmode=None):
    from cardutil import iso8583
    cfg = caller_config(iso8583, cfgmode)
    try:
        _watchdog(lambda: iso8583.loads(data, encoding=enc, hex_bitmap=hexbm, iso_config=cfg))
    except iso8583.Iso8583DataError:
        return False, 'Iso8583DataError', None
    except TimeoutError:
        return True, 'loads did not return within 5 s', 'C07/hang'
    except Exception as e:
        return True, 'loads raised %s: %s' % (type(e).__name__, e), 'C07/exception/%s' % type(e).__name__
    return False, 'dict', None


def replay_pds(field):
    from cardutil import iso8583
    try:
        _watchdog(lambda: iso8583._pds_to_dict(field))
    except iso8583.Iso8583DataError:
        return False, 'Iso8583DataError', None
    except TimeoutError:
        return True, '_pds_to_dict did not return within 5 s', 'C07/pds-hang'
    except Exception as e:
        return True, '_pds_to_dict raised %s' % type(e).__name__, 'C07/pds-exception'
    return False, 'dict', None


def replay_icc(field):
    from cardutil import iso8583
    from . import ref
    try:
        want = ref.ref_icc(field)
        rej = None
    except ref.RefError as e:
        want, rej = None, str(e)
    try:
        got = _watchdog(lambda: iso8583._icc_to_dict(field))
    except iso8583.Iso8583DataError:
        if rej is None:
            return True, 'refused a field the reference reader accepts', 'C07/icc-refuses'
        return False, 'Iso8583DataError', None
    except TimeoutError:
        return True, 'hang', 'C07/icc-hang'
    except Exception as e:
        return True, '_icc_to_dict raised %s' % type(e).__name__, 'C07/icc-exception'
    if rej is not None:
        return True, 'accepted although %s' % rej, 'C07/icc-accepts'
    if got != want:
        return True, 'differs from reference TLV reading', 'C07/icc-value'
    return False, 'dict', None


def replay_file(data, reader, blocked):
    from cardutil import mciipm
    rd = (mciipm.VbsReader if reader == 'vbs' else mciipm.IpmReader)(io.BytesIO(data), blocked=blocked)
    try:
        _watchdog(lambda: [None for _ in zip(range(50), rd)])
    except mciipm.MciIpmDataError:
        return False, 'MciIpmDataError', None
    except TimeoutError:
        return True, 'reader did not return within 5 s', 'C07/file-hang'
    except Exception as e:
        return True, 'reader raised %s: %s' % (type(e).__name__, e), 'C07/file-exception'
    return False, 'ended', None


def replay_diagnostics(data):
    import contextlib
    from cardutil import mciipm
    from cardutil.cli import mci_ipm_to_csv

    def run():
        info = mciipm.ipm_info(io.BytesIO(data))
        with contextlib.redirect_stdout(io.StringIO()):
            mci_ipm_to_csv.print_check_details(info)
    try:
        _watchdog(run)
    except TimeoutError:
        return True, 'diagnostics did not return within 5 s', 'C07/hang'
    except Exception as e:
        return True, 'ipm_info + print_check_details raised %s: %s' % (type(e).__name__, e), 'C07/cli-diagnostics'
    return False, 'printed', None


def replay_noop():
    return False, 'syntactic', None
