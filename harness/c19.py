"""C19 -- encoding/format conversion tools preserve every record and are reversible"""
import itertools
from vsym.runner import Ob
from vsym import models
from .common import *
from .isomsg import *
from .ipmfile import *

PROPERTY = 'C19'
DEBUG_LOG = ['mci_ipm_encode/cp500-latin_1/1014-1014', 'mci_ipm_param_encode/cp500-latin_1/1014-vbs']      # obligations that are also explored with debug logging switched on
PYTHON_O = ['mci_ipm_encode/cp500-latin_1/1014-1014', 'mideu-convert/cp500-latin_1/vbs', 'mci_ipm_param_encode/cp500-latin_1/vbs-1014']      # obligations that are also explored with the modules compiled as under python -O
ASSUMPTIONS = [
    'input files are written by the real IpmWriter / VbsWriter on RopeFiles; messages from the C01 families (PDS, concrete ICC, numerics, date tokens), '
    'parameter records opaque; 1..2 records',
    'text content carries the codec it was encoded with, so a wrong codec anywhere in the conversion shows as inequality',
    'open() inside the tools is a virtual file system of RopeFiles; argparse entry points and real files are outside',
]
SHAPES19 = [[2, 4], [3, 12, 63], [48, 55], [2, 43, 71], [31, 127], [2, 'PDS0002', 'PDS0158', 'PDS9000']]
LONG19 = [[72, 127], [54, 111, 'PDS0023']]


def _funcs():
    m = M()
    return [m.mci_ipm_encode.mci_ipm_encode, m.mci_ipm_encode.get_config, m.mideu.convert, m.mci_ipm_param_encode.mci_ipm_param_encode,
            m.paramconv.mci_ipm_param_encode, m.mciipm.IpmReader.__next__, m.mciipm.IpmWriter.write, m.iso8583.dumps, m.iso8583.loads]


def fmt(b):
    return '1014' if b else 'vbs'


def ipm_convert(tool, a, b, fa, fb, nrec, shapes=None, maxvar=300):
    def h():
        core.FUEL.set(40)
        m = M()
        recs = []
        for i in range(nrec):
            bits = choose('shape%d' % i, shapes or SHAPES19)
            msg, elems = build_message(bits, tag='_r%d' % i, maxvar=maxvar)
            recs.append((msg, elems))

        def rp():
            return {'kind': 'ipm', 'args': {'tool': tool, 'a': a, 'b': b, 'fa': fa, 'fb': fb, 'msgs': [msg_witness(mm, ee, ev) for mm, ee in recs]}}
        core.set_fallback(rp, 'C19/concretised')
        src = RopeFile()
        w = m.mciipm.IpmWriter(src, encoding=a, blocked=fa)
        for msg, _ in recs:
            w.write(dict(msg))
        w.close()
        original = src.getvalue()
        with guard(tool, 'C19/exception', rp):
            if tool == 'mci_ipm_encode':
                out = RopeFile()
                m.mci_ipm_encode.mci_ipm_encode(RopeFile(original), out_file=out, in_encoding=a, out_encoding=b, in_format=fmt(fa), out_format=fmt(fb))
                converted = out.getvalue()
            else:
                models.VFS.reset()
                models.VFS.files['in.ipm'] = RopeFile(original)
                m.mideu.convert(None, input='in.ipm', no1014blocking=not fa, sourceformat='ebcdic' if a == 'cp500' else 'ascii')
                converted = models.VFS.files['in.ipm.out'].getvalue()
        core.FUEL.set(40)
        got = []
        with guard('reading the converted file', 'C19/unreadable', rp):
            for d in m.mciipm.IpmReader(RopeFile(converted), encoding=b, blocked=fb):
                core.FUEL.set(40)
                got.append(d)
                if len(got) > nrec:
                    break
        require(len(got) == nrec, 'converted file has %d records, input had %d' % (len(got), nrec), key='C19/count', replay=rp)
        for i, (d, (msg, elems)) in enumerate(zip(got, recs)):
            compare_record(d, msg, elems, 'C19/value', rp, 'record %d: ' % (i + 1))
        # back to A with the original format: byte-for-byte the original file
        core.FUEL.set(40)
        with guard(tool + ' (return conversion)', 'C19/exception', rp):
            if tool == 'mci_ipm_encode':
                back = RopeFile()
                m.mci_ipm_encode.mci_ipm_encode(RopeFile(converted), out_file=back, in_encoding=b, out_encoding=a, in_format=fmt(fb), out_format=fmt(fa))
                restored = back.getvalue()
            else:
                models.VFS.reset()
                models.VFS.files['back.ipm'] = RopeFile(converted)
                m.mideu.convert(None, input='back.ipm', no1014blocking=not fb, sourceformat='ebcdic' if b == 'cp500' else 'ascii')
                restored = models.VFS.files['back.ipm.out'].getvalue()
        req_eq(restored, original, 'converting back does not reproduce the original file', key='C19/reversible', replay=rp)
        return {'sample': {'tool': tool, 'a': a, 'b': b, 'fa': fmt(fa), 'fb': fmt(fb), 'size': ev(rlen(original))}, 'replay': rp()}
    return h


def param_convert(tool, a, b, fa, fb, nrec, plen=800):
    def h():
        core.FUEL.set(40)
        m = M()
        ns = [sym_int('rec%d_len' % i, *(plen if isinstance(plen, tuple) else (1, plen))) for i in range(nrec)]
        texts = [Source('prec%d' % i, 't', n).rope() for i, n in enumerate(ns)]
        def rp():
            return {'kind': 'param', 'args': {'tool': tool, 'a': a, 'b': b, 'fa': fa, 'fb': fb, 'lens': [ev(n) for n in ns],
                                             'texts': [concretize(t, ev) for t in texts]}}
        core.set_fallback(rp, 'C19/concretised')
        src = RopeFile()
        w = m.mciipm.VbsWriter(src, blocked=fa)
        for t in texts:
            w.write(t.encode(a))
        w.close()
        original = src.getvalue()
        with guard(tool, 'C19/exception', rp):
            out = RopeFile()
            if tool == 'mci_ipm_param_encode':
                m.mci_ipm_param_encode.mci_ipm_param_encode(RopeFile(original), out, in_encoding=a, out_encoding=b, in_format=fmt(fa), out_format=fmt(fb))
            else:
                m.paramconv.mci_ipm_param_encode(RopeFile(original), out, in_encoding=a, out_encoding=b, blocked=fa)
            converted = out.getvalue()
        core.FUEL.set(40)
        got = []
        with guard('reading the converted file', 'C19/unreadable', rp):
            for r in m.mciipm.VbsReader(RopeFile(converted), blocked=fb):
                core.FUEL.set(40)
                got.append(r)
                if len(got) > nrec:
                    break
        require(len(got) == nrec, 'converted file has %d records, input had %d' % (len(got), nrec), key='C19/count', replay=rp)
        for i, (r, t) in enumerate(zip(got, texts)):
            req_eq(r.decode(b), t, 'record %d decoded under B differs from the input decoded under A' % (i + 1), key='C19/value', replay=rp)
        core.FUEL.set(40)
        back = RopeFile()
        with guard(tool + ' (return conversion)', 'C19/exception', rp):
            if tool == 'mci_ipm_param_encode':
                m.mci_ipm_param_encode.mci_ipm_param_encode(RopeFile(converted), back, in_encoding=b, out_encoding=a, in_format=fmt(fb), out_format=fmt(fa))
            else:
                m.paramconv.mci_ipm_param_encode(RopeFile(converted), back, in_encoding=b, out_encoding=a, blocked=fb)
        req_eq(back.getvalue(), original, 'converting back does not reproduce the original file', key='C19/reversible', replay=rp)
        return {'sample': {k: v for k, v in rp()['args'].items() if k != 'texts'}, 'replay': rp()}
    return h


def obligations(tier):
    q = tier == 'quick'
    obs = []
    pairs = [(a, b) for a in CODECS for b in CODECS if a != b]
    for a, b in pairs:
        for fa, fb in itertools.product((False, True), repeat=2):
            if q and (fa, fb) not in ((True, False), (False, True)) and (a, b) != ('cp500', 'latin_1'):
                continue
            obs.append(Ob('mci_ipm_encode/%s-%s/%s-%s' % (a, b, fmt(fa), fmt(fb)), ipm_convert('mci_ipm_encode', a, b, fa, fb, 1), 900,
                          'one record of any shape in %s, all lengths/values' % SHAPES19, _funcs))
    for a, b, fa, fb in (('latin_1', 'cp500', False, True), ('cp500', 'latin_1', True, True)):
        obs.append(Ob('mci_ipm_encode/%s-%s/%s-%s/long-record' % (a, b, fmt(fa), fmt(fb)), ipm_convert('mci_ipm_encode', a, b, fa, fb, 1, shapes=LONG19, maxvar=None), 1800,
                      'one long record (elements %s, every length up to 999 each: records up to ~3000 bytes spanning several blocks)' % LONG19, _funcs))
    for a, b in (('cp500', 'latin_1'), ('latin_1', 'cp500')):
        obs.append(Ob('mideu-convert/%s-%s/vbs/full-pds-carrier' % (a, b), ipm_convert('mideu', a, b, False, False, 1, shapes=[[3, 48]], maxvar=992), 900,
                      'legacy converter, DE48 given as one raw PDS sub-element of 0..992 characters (carrier of up to exactly 999)', _funcs))
    obs.append(Ob('mideu-convert/cp500-latin_1/1014/long-record', ipm_convert('mideu', 'cp500', 'latin_1', True, True, 1, shapes=LONG19[:1], maxvar=None), 1800,
                  'legacy converter, one long record', _funcs))
    obs.append(Ob('mci_ipm_encode/latin_1-cp500/vbs-1014/2-long-records', ipm_convert('mci_ipm_encode', 'latin_1', 'cp500', False, True, 2, shapes=LONG19[:1], maxvar=None), 1800,
                  'two long records (DE72, DE127 of every length up to 999): a write may end exactly on a block boundary of the blocked output and the next record crosses the following one', _funcs))
    obs.append(Ob('mci_ipm_encode/cp500-latin_1/1014-vbs/pds-in-two-carriers', ipm_convert('mci_ipm_encode', 'cp500', 'latin_1', True, False, 1, shapes=[[3, 'PDS0002', 'PDS0158']], maxvar=992), 900,
                  'a record whose PDS entries (two, 0..992 characters each) may need DE48 and DE62: the converter hands the raw carriers to the writer', _funcs))
    obs.append(Ob('mci_ipm_encode/cp500-latin_1/1014-1014/2rec', ipm_convert('mci_ipm_encode', 'cp500', 'latin_1', True, True, 2, shapes=SHAPES19[:3], maxvar=200), 1800,
                  'two records', _funcs))
    for a, b in (('cp500', 'latin_1'), ('latin_1', 'cp500')):
        for f in (False, True):
            obs.append(Ob('mideu-convert/%s-%s/%s' % (a, b, fmt(f)), ipm_convert('mideu', a, b, f, f, 1), 900, 'legacy converter, one record of any shape', _funcs))
    for tool in ('mci_ipm_param_encode', 'paramconv'):
        for a, b in (pairs if not q else [('cp500', 'latin_1'), ('latin_1', 'cp037')]):
            for fa, fb in (itertools.product((False, True), repeat=2) if tool == 'mci_ipm_param_encode' else ((False, False), (True, True))):
                if q and fa != fb and a == 'latin_1':
                    continue
                obs.append(Ob('%s/%s-%s/%s-%s' % (tool, a, b, fmt(fa), fmt(fb)), param_convert(tool, a, b, fa, fb, 2), 900,
                              'two opaque parameter records of length 1..800', _funcs))
    obs.append(Ob('mci_ipm_param_encode/cp500-latin_1/vbs-1014/long-record', param_convert('mci_ipm_param_encode', 'cp500', 'latin_1', False, True, 1, plen=3000), 900,
                  'one opaque parameter record of length 1..3000', _funcs))
    obs.append(Ob('mci_ipm_param_encode/latin_1-cp500/1014-vbs/max-record', param_convert('mci_ipm_param_encode', 'latin_1', 'cp500', True, False, 1, plen=(5995, 6000)), 900,
                  'one opaque parameter record of 5995..6000 characters (up to the configured maximum record length)', _funcs))
    obs.append(Ob('paramconv/cp500-latin_1/vbs-vbs/max-record', param_convert('paramconv', 'cp500', 'latin_1', False, False, 1, plen=(5995, 6000)), 900,
                  'one opaque parameter record of 5995..6000 characters', _funcs))
    obs.append(Ob('paramconv/latin_1-cp500/1014-1014/long-record', param_convert('paramconv', 'latin_1', 'cp500', True, True, 1, plen=3000), 900,
                  'one opaque parameter record of length 1..3000', _funcs))
    return obs
