import io
import datetime


def replay_csv(rows, cols, enc, blocked):
    import csv
    from cardutil.config import config
    from cardutil.cli import mci_csv_to_ipm, mci_ipm_to_csv
    d = datetime.datetime(2021, 3, 4, 5, 6, 7)
    table = []
    for r in rows:
        row = {}
        for c in cols:
            v = r.get(c, '')
            if isinstance(v, dict) and v.get('date'):
                v = d.strftime('%Y-%m-%d %H:%M:%S')
            row[c] = v
        table.append(row)
    buf = io.StringIO()
    w = csv.DictWriter(buf, fieldnames=cols, lineterminator='\n')
    w.writeheader()
    w.writerows(table)
    buf.seek(0)
    ipm = io.BytesIO()
    try:
        mci_csv_to_ipm.mci_csv_to_ipm(buf, ipm, config, out_encoding=enc, no1014blocking=not blocked)
        out = io.StringIO()
        mci_ipm_to_csv.mci_ipm_to_csv(io.BytesIO(ipm.getvalue()), out, config, in_encoding=enc, no1014blocking=not blocked)
    except Exception as e:
        return True, 'raised %s: %s' % (type(e).__name__, e), 'C20/exception'
    out.seek(0)
    got = list(csv.DictReader(out))
    if len(got) != len(table):
        return True, 'extracted %d rows from %d' % (len(got), len(table)), 'C20/rows'
    for i, (g, t) in enumerate(zip(got, table)):
        for c, v in t.items():
            if v != '' and g.get(c) != v:
                return True, 'row %d column %s: %r became %r' % (i + 1, c, v[:30], str(g.get(c))[:30]), 'C20/value'
    return False, 'ok', None
