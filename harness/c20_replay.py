import io
import datetime


def replay_csv(rows, cols, enc, blocked, second_config=False):
    import csv
    from cardutil.config import config
    from cardutil.cli import mci_csv_to_ipm, mci_ipm_to_csv
    d = datetime.datetime(2021, 3, 4, 5, 6, 7)
    table = []
    for r in rows:
        row = {}
        for c in cols:
            v = r.get(c, '')
            if isinstance(v, dict) and isinstance(v.get('date'), list):
                v = datetime.datetime(*v['date']).strftime('%Y-%m-%d %H:%M:%S')
            elif isinstance(v, dict) and v.get('date'):
                v = d.strftime('%Y-%m-%d %H:%M:%S')
            row[c] = v
        table.append(row)
    buf = io.StringIO()
    w = csv.DictWriter(buf, fieldnames=cols, lineterminator='\n')
    w.writeheader()
    w.writerows(table)
    buf.seek(0)
    if second_config:
        import copy
        warm = io.StringIO('MTI,DE2,PDS0023\n1240,4444555566667777,warm\n')
        mci_csv_to_ipm.mci_csv_to_ipm(warm, io.BytesIO(), config, out_encoding=enc, no1014blocking=not blocked)
        config = copy.deepcopy(config)
        del config['bit_config']['48']['field_processor']
    ipm = io.BytesIO()
    try:
        mci_csv_to_ipm.mci_csv_to_ipm(buf, ipm, config, out_encoding=enc, no1014blocking=not blocked)
        out = io.StringIO()
        mci_ipm_to_csv.mci_ipm_to_csv(io.BytesIO(ipm.getvalue()), out, config, in_encoding=enc, no1014blocking=not blocked)
    except Exception as e:
        return True, 'raised %s: %s' % (type(e).__name__, e), 'C20/exception'
    out.seek(0)
    got = list(csv.DictReader(out))
    if len(got) != len(table):
        return True, 'extracted %d rows from %d' % (len(got), len(table)), 'C20/rows'
    for i, (g, t) in enumerate(zip(got, table)):
        for c, v in t.items():
            if v != '' and g.get(c) != v:
                return True, 'row %d column %s: %r became %r' % (i + 1, c, v[:30], str(g.get(c))[:30]), 'C20/value'
            if v == '' and g.get(c) not in ('', None):
                return True, 'row %d: column %s was left empty but comes back as %r' % (i + 1, c, str(g.get(c))[:30]), 'C20/value-appeared'
    return False, 'ok', None


def replay_cli(in_enc, out_enc, ipm_enc, noblock):
    """the command entry points on real files (scratch directory under /dev/shm, removed afterwards)"""
    import contextlib
    import csv
    import os
    import shutil
    import tempfile
    from cardutil.cli import mci_csv_to_ipm, mci_ipm_to_csv
    d = tempfile.mkdtemp(prefix='verif.c20.', dir='/dev/shm')
    try:
        row = {'MTI': '1240', 'DE2': '4444555566667777', 'DE4': '1200', 'DE38': 'CAF\xc9 1'}
        with open(os.path.join(d, 'in.csv'), 'w', encoding=in_enc, newline='') as f:
            w = csv.DictWriter(f, fieldnames=list(row))
            w.writeheader()
            w.writerow(row)
        with contextlib.redirect_stdout(io.StringIO()):
            mci_csv_to_ipm.cli_run(in_filename=os.path.join(d, 'in.csv'), out_filename=os.path.join(d, 'out.ipm'), in_encoding=in_enc,
                                   out_encoding=ipm_enc, no1014blocking=noblock, config_file=None, debug=False)
            rc = mci_ipm_to_csv.cli_run(in_filename=os.path.join(d, 'out.ipm'), out_filename=os.path.join(d, 'back.csv'), in_encoding=ipm_enc,
                                        out_encoding=out_enc, no1014blocking=noblock, config_file=None, debug=False)
        if rc is not None:
            return True, 'extraction reported an error', 'C20/cli'
        try:
            with open(os.path.join(d, 'back.csv'), 'r', encoding=out_enc, newline='') as f:
                got = list(csv.DictReader(f))
        except (UnicodeError, csv.Error) as e:
            return True, 'output CSV cannot be read in the requested encoding %s: %s' % (out_enc, type(e).__name__), 'C20/cli-encoding'
        if len(got) != 1 or any(got[0].get(c) != v for c, v in row.items()):
            return True, 'row came back as %r' % ({c: got[0].get(c) for c in row} if got else None,), 'C20/cli-encoding'
        return False, 'ok', None
    finally:
        shutil.rmtree(d, ignore_errors=True)


def replay_cli_rows(ipm_enc, noblock, cols, rows):
    """the command entry points on real files with the given rows"""
    import contextlib
    import csv
    import os
    import shutil
    import tempfile
    from cardutil.cli import mci_csv_to_ipm, mci_ipm_to_csv
    d = tempfile.mkdtemp(prefix='verif.c20.', dir='/dev/shm')
    try:
        with open(os.path.join(d, 'in.csv'), 'w', newline='') as f:
            w = csv.DictWriter(f, fieldnames=list(cols))
            w.writeheader()
            w.writerows(rows)
        try:
            with contextlib.redirect_stdout(io.StringIO()):
                mci_csv_to_ipm.cli_run(in_filename=os.path.join(d, 'in.csv'), out_filename=os.path.join(d, 'out.ipm'), in_encoding=None,
                                       out_encoding=ipm_enc, no1014blocking=noblock, config_file=None, debug=False)
                rc = mci_ipm_to_csv.cli_run(in_filename=os.path.join(d, 'out.ipm'), out_filename=os.path.join(d, 'back.csv'), in_encoding=ipm_enc,
                                            out_encoding=None, no1014blocking=noblock, config_file=None, debug=False)
        except Exception as e:
            return True, 'raised %s: %s' % (type(e).__name__, e), 'C20/cli-exception'
        if rc is not None:
            return True, 'extraction of the file just written reported an error', 'C20/cli'
        with open(os.path.join(d, 'back.csv'), 'r', newline='') as f:
            got = list(csv.DictReader(f))
        if len(got) != len(rows):
            return True, 'extracted %d rows from %d' % (len(got), len(rows)), 'C20/cli'
        for i, (g, r) in enumerate(zip(got, rows)):
            for c, v in r.items():
                if g.get(c) != v:
                    return True, 'row %d column %s changed' % (i + 1, c), 'C20/cli'
        return False, 'ok', None
    finally:
        shutil.rmtree(d, ignore_errors=True)
