"""loading of pinblock / key / card through the normalising loader with the cipher, secrets and binascii stubs"""
import sys
import types

from vsym import loader, models, cryptostub

_P = {}


def P(optimize=None):
    if optimize is None:
        from . import common
        optimize = common.DEFAULT_OPT[0]
    if optimize not in _P:
        secrets = cryptostub.SecretsStub()
        stubs = {'Cipher': cryptostub.Cipher, 'algorithms': cryptostub.AlgorithmsStub, 'd_algorithms': cryptostub.AlgorithmsStub,
                 'modes': cryptostub.ModesStub, 'secrets': secrets,
                 'unhexlify': models.BinasciiStub.unhexlify, 'hexlify': models.BinasciiStub.hexlify}
        ctx = loader.Context(optimize=optimize, stubs=stubs)
        ctx.load('cardutil.pinblock', 'cardutil.key', 'cardutil.card')
        ns = types.SimpleNamespace(ctx=ctx, pinblock=ctx.modules['cardutil.pinblock'], key=ctx.modules['cardutil.key'],
                                   card=ctx.modules['cardutil.card'], secrets=secrets)
        _P[optimize] = ns
        from . import common
        common._snapshot_module_state(ns)          # module-level containers go back to their import-time content at every path start
    return _P[optimize]
