"""shared helpers for the symbolic harnesses"""
import os
import sys

from vsym import core, rope, models, loader
from vsym.core import sym_int, assume, require, fail, ev, SInt, s_and, s_or, s_not, s_eq, same_int
from vsym.rope import Source, Rope, Lit, Opq, Fill, Num, U32, mk, norm, rlen, as_rope, concretize
from vsym.models import RopeFile, SymDate

_CTX = {}


DEFAULT_OPT = [0]       # set by the runner for the python-O twin of an obligation


def M(optimize=None, stubs=None, key=None):
    """the normalised cardutil modules, loaded once per process from /repo's working tree"""
    if optimize is None:
        optimize = DEFAULT_OPT[0]
    k = key or ('std', optimize)
    if k not in _CTX:
        from vsym import models as _models
        stubs = dict(stubs or {}, DictReader=_models.CsvStub.DictReader)
        ctx = loader.Context(optimize=optimize, stubs=stubs)
        ctx.load('cardutil.iso8583', 'cardutil.mciipm', 'cardutil.card', 'cardutil.config', 'cardutil.BitArray', 'cardutil.cli',
                 'cardutil.cli.mci_ipm_param_to_csv', 'cardutil.cli.mci_ipm_to_csv', 'cardutil.cli.mci_csv_to_ipm', 'cardutil.cli.mci_ipm_encode',
                 'cardutil.cli.mci_ipm_param_encode', 'cardutil.cli.mideu', 'cardutil.cli.paramconv')
        import types
        ns = types.SimpleNamespace(ctx=ctx, **{n.split('.')[-1]: m for n, m in ctx.modules.items()})
        ns.stubs = stubs or {}
        ns.cardutil = sys.modules['cardutil']
        _CTX[k] = ns
        _snapshot_module_state(ns)
    return _CTX[k]


_MODULE_STATE = []      # (container, shallow copy taken right after import)


def _snapshot_module_state(ns):
    """every path starts from the state a fresh process has after `import cardutil...`: mutable containers at module and class level
    (a memo table a change may add, the top level of the packaged configuration dictionary) are put back to their content at import time"""
    import copy
    import inspect
    for mod in ns.ctx.modules.values():
        owners = [mod] + [c for c in vars(mod).values() if inspect.isclass(c) and getattr(c, '__module__', None) == mod.__name__]
        for o in owners:
            for name, val in list(vars(o).items()):
                if name.startswith('__'):
                    continue
                if type(val) in (dict, list, set, bytearray) and not any(val is c for c, _ in _MODULE_STATE):
                    _MODULE_STATE.append((val, copy.copy(val)))


def _restore_module_state():
    for cont, snap in _MODULE_STATE:
        if cont == snap:
            continue
        if isinstance(cont, dict):
            cont.clear()
            cont.update(snap)
        elif isinstance(cont, set):
            cont.clear()
            cont.update(snap)
        else:
            cont[:] = snap


core.PATH_RESET.append(_restore_module_state)


def opaque(name, kind, lo, hi):
    """fresh opaque content of symbolic length in [lo, hi]"""
    n = sym_int(name + '_len', lo, hi) if lo != hi else lo
    src = Source(name, kind, n)
    return src, (src.rope() if not (isinstance(n, int) and n == 0) else ('' if kind == 't' else b''))


def sl(x, a, b):
    """slice that works for ropes and literals with symbolic bounds"""
    return models.sh_getitem(x, slice(a, b))


def cat(kind, *xs):
    ps = []
    for x in xs:
        ps.extend(rope.pieces_of(x))
    return norm(kind, ps)


def req_eq(a, b, msg, **detail):
    """require content equality of two ropes/literals"""
    same = (a == b) if isinstance(a, Rope) else ((b == a) if isinstance(b, Rope) else a == b)
    require(same, msg, **detail)


PAD = b'\x40'


def check_blocked(V, D, final, max_blocks, what, **detail):
    """independent reading of 1014-blocked bytes V against the data stream D (both ropes/bytes).
    final: whole blocks, data then only fill, at most one all-fill block.
    not final: whole blocks followed by a partial payload (< 1012 bytes, no trailer yet); payloads == D exactly."""
    size = rlen(V)
    T = rlen(D)
    nfull = size // 1014
    rem = size % 1014
    if final:
        require(s_eq(rem, 0), what + ': not a whole number of 1014-byte blocks', **detail)
    else:
        require(rem <= 1012, what + ': more than 1012 payload bytes without a trailer', **detail)
    payload = []
    for j in range(max_blocks):
        if not (j < nfull):
            break
        payload.append(sl(V, j * 1014, j * 1014 + 1012))
        req_eq(sl(V, j * 1014 + 1012, j * 1014 + 1014), PAD * 2, what + ': block %d does not end in two 0x40 bytes' % j, **detail)
    else:
        require(s_not(max_blocks < nfull), what + ': more blocks than expected', **detail)
    if not final:
        payload.append(sl(V, nfull * 1014, size))
    P = cat('b', *payload)
    PL = rlen(P)
    if final:
        require(PL >= T, what + ': payload shorter than the data written', **detail)
        req_eq(sl(P, 0, T), D, what + ': payload does not start with the bytes written', **detail)
        req_eq(sl(P, T, PL), mk('b', [Fill(PAD, PL - T)]) if not same_int(PL, T) else b'', what + ': bytes after the data are not all 0x40 fill', **detail)
        # at most one all-fill block
        require(PL - T < 2 * 1012, what + ': more than one block holds fill only', **detail)
    else:
        req_eq(P, D, what + ': payload differs from the bytes written', **detail)
    return nfull


class guard:
    """run code under test: an exception the property does not allow becomes a violation (not a harness crash);
    loop-budget exhaustion becomes a candidate non-termination"""
    def __init__(self, what, key, replay, allow=(), hang_key=None):
        self.what = what
        self.key = key
        self.replay = replay
        self.allow = allow
        self.hang_key = hang_key or key

    def __enter__(self):
        core.cur().fallback = (self.replay, self.key, self.what)      # see Explorer._concolic_fallback
        return self

    def __exit__(self, et, e, tb):
        if et is None:
            return False
        if issubclass(et, core.OutOfFuel):
            rp = self.replay() if callable(self.replay) else self.replay
            raise core.Violation('%s does not terminate (loop budget exhausted)' % self.what, {'key': self.hang_key, 'replay': rp})
        if issubclass(et, core.ControlFlow) or (self.allow and issubclass(et, self.allow)):
            return False
        if issubclass(et, Exception):
            # the exception may come from the code under test or from an abstract value that reached native code: besides the path's own
            # model, spread-out models of the path go to the concrete replay as well
            core.cur()._concolic_fallback('%s raised %s' % (self.what, et.__name__))
            rp = self.replay() if callable(self.replay) else self.replay
            raise core.Violation('%s raised %s: %s' % (self.what, et.__name__, str(e)[:80]), {'key': self.key, 'replay': rp})
        return False


def is_true(x):
    """`x is True` for a value computed by the code under test: a symbolic truth value that Python's `and`/`or` handed through
    (the operand object itself) counts as the bool it stands for"""
    return bool(x) if isinstance(x, core.SBool) else x is True


def is_false(x):
    return (not bool(x)) if isinstance(x, core.SBool) else x is False


def native_watchdog(fn, secs=3):
    """run fn() natively (concrete inputs) and raise TimeoutError if it does not come back: for code that loops inside a C extension
    which polls for signals (the regular expression engine).  The runner's own alarm is re-armed afterwards."""
    import signal

    def handler(signum, frame):
        raise TimeoutError('watchdog')
    old = signal.signal(signal.SIGALRM, handler)
    left = signal.alarm(secs)
    try:
        return fn()
    finally:
        signal.alarm(0)
        signal.signal(signal.SIGALRM, old)
        if left:
            signal.alarm(max(1, left))
