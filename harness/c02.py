"""C02 -- ISO8583 wire format conforms to the documented layout, in both directions"""
from vsym.runner import Ob
from .common import *
from .isomsg import *
from .c01 import family_pairs, class_mixes, GENERIC, GENERIC_DEC, check_codecs

PROPERTY = 'C02'
DEBUG_LOG = ['single/dec/latin_1/bin', 'single/enc/latin_1/bin']      # obligations that are also explored with debug logging switched on
PYTHON_O = ['single/enc/latin_1/bin', 'single/dec/latin_1/bin']      # obligations that are also explored with the modules compiled as under python -O
ASSUMPTIONS = [
    'element subsets concrete from a family (every single element, pairs, class mixes); lengths / numeric values / content symbolic',
    'reference layout written from the documentation (harness/isomsg.py: Elem.layout, bitmap_bytes); concrete twin in harness/ref.py used by the replays',
    'text content opaque and codec-tagged; ICC payloads from a concrete TLV family compared with an independent TLV reader; '
    'DE43: only the plumbing (pattern passed to re.match, groups returned, postcode right-stripped) - the regex engine is a stub',
]


def _funcs():
    i = M().iso8583
    return [i.dumps, i.loads, i._dict_to_iso8583, i._field_to_iso8583, i._pytype_to_string, i._iso8583_to_dict, i._iso8583_to_field,
            i._string_to_pytype, i._get_field_length, i._get_bitmap_list, i._pds_to_dict, i._icc_to_dict, i._get_de43_fields,
            M().BitArray.BitArray.tolist, M().BitArray.BitArray.fromlist]


def encode(pick, enc, hexbm, cfgs=None):
    def h():
        core.FUEL.set(40)
        iso = M().iso8583
        bits = pick()
        special = choose('special', range(len(bits))) if len(bits) > 2 else None
        msg, elems = build_message(bits, cfgs=cfgs, short_ok=True, over=True, special_only=special)

        def rp():
            return {'kind': 'encode', 'args': {'msg': msg_witness(msg, elems, ev), 'enc': enc, 'hexbm': hexbm, 'cfg': cfgs or 'packaged'}}
        core.set_fallback(rp, 'C02/concretised')
        over = [e for e in elems if e.kind == 'var' and e.src_len is not None]
        too_long = s_or(*[e.src_len > 10 ** flen(e.cfg) - 1 for e in over]) if over else False
        try:
            b = iso.dumps(dict(msg), encoding=enc, hex_bitmap=hexbm, iso_config=cfgs)
        except core.ControlFlow:
            raise
        except Exception as ex:
            require(too_long, 'dumps refused a representable message: %s' % type(ex).__name__, key='C02/refused', replay=rp)
            return {'sample': {'bits': bits, 'refused': True}, 'replay': rp()}
        require(s_not(too_long), 'a variable-length value longer than its prefix can count was emitted', key='C02/overlength', replay=rp)
        present = [e for e in elems]
        # zero numeric values are present (0 is a value); empty strings are absent
        pres = []
        for e in present:
            if e.kind == 'fixed' and not isinstance(rlen(e.value), int):
                if rlen(e.value) > 0:
                    pres.append(e)
            elif e.kind == 'fixed' and rlen(e.value) == 0:
                continue
            else:
                pres.append(e)
        E = reference_bytes(msg['MTI'], pres, enc, hexbm)
        req_eq(b, E, 'encoded bytes differ from the documented layout', key='C02/layout', replay=rp)
        return {'sample': {'bits': bits, 'enc': enc, 'len': ev(rlen(b))}, 'replay': rp()}
    return h


def decode(pick, enc, hexbm, cfgs=None):
    def h():
        core.FUEL.set(60)
        iso = M().iso8583
        bits = pick()
        special = choose('special', range(len(bits))) if len(bits) > 2 else None
        msg, elems = build_message(bits, cfgs=cfgs, minvar=0, special_only=special)
        wire = reference_bytes(msg['MTI'], elems, enc, hexbm)

        def rp():
            return {'kind': 'decode', 'args': {'msg': msg_witness(msg, elems, ev), 'enc': enc, 'hexbm': hexbm, 'cfg': cfgs or 'packaged'}}
        core.set_fallback(rp, 'C02/concretised')
        with guard('loads of a message in the documented layout', 'C02/decode-refused', rp):
            d = iso.loads(wire, encoding=enc, hex_bitmap=hexbm, iso_config=cfgs)
        require(d.get('MTI') == msg['MTI'], 'MTI', key='C02/decode-value', replay=rp)
        expect_keys = {'MTI'}
        for e in elems:
            require(e.key in d, '%s missing from the decoded message' % e.key, key='C02/decode-value', replay=rp)
            got = d[e.key]
            if e.kind == 'num':
                require(isinstance(got, (int, SInt)) and not isinstance(got, bool), '%s is not a number' % e.key, key='C02/decode-value', replay=rp)
                require(s_eq(got, e.expect), '%s differs from the value on the wire' % e.key, key='C02/decode-value', replay=rp)
            elif e.kind == 'date':
                require(models.dates_equal(got, e.expect), '%s differs' % e.key, key='C02/decode-value', replay=rp)
            else:
                req_eq(got, e.expect, '%s differs from the value on the wire' % e.key, key='C02/decode-value', replay=rp)
            expect_keys.add(e.key)
            if e.kind == 'icc':
                refd = icc_reference(e.value)
                for k, v in refd.items():
                    require(d.get(k) == v, 'ICC derived entry %s differs from the independent TLV reading' % k, key='C02/icc', replay=rp)
                expect_keys |= set(refd)
            for k, v in e.pds.items():
                require(k in d, '%s missing' % k, key='C02/pds', replay=rp)
                req_eq(d[k], v, '%s differs' % k, key='C02/pds', replay=rp)
                expect_keys.add(k)
            if e.proc == 'DE43':
                expect_keys |= {k for k in d if k.startswith('DE43_')}
                if 'DE43_POSTCODE' in d and hasattr(d['DE43_POSTCODE'], 'stripped_of') is False and rlen(d['DE43_POSTCODE']) != 0:
                    fail('DE43 postcode is not right-stripped', key='C02/de43', replay=rp)
        extra = [k for k in d if k not in expect_keys]
        require(not extra, 'decoded message has entries that an independent reading does not: %s' % extra, key='C02/decode-extra', replay=rp)
        return {'sample': {'bits': bits, 'enc': enc, 'keys': sorted(d)}, 'replay': rp()}
    return h


NUMTEXT_CFG = {'5': {'field_type': 'LLVAR', 'field_length': 0, 'field_python_type': 'int'},
               '6': {'field_type': 'FIXED', 'field_length': 3, 'field_python_type': 'long'},
               '4': {'field_type': 'FIXED', 'field_length': 12, 'field_python_type': 'int'}}


def numeric_text(enc, hexbm):
    """numbers handed over as text of decimal digits (as the CSV tools do): the value counts, not its spelling --
    leading zeros beyond the field width, short spellings, zero"""
    def h():
        from . import ref
        iso = M().iso8583
        custom = choose('cfg', [False, True])
        cfgs = NUMTEXT_CFG if custom else bit_config()
        nbits = sorted(int(k) for k, v in cfgs.items() if v.get('field_python_type') in ('int', 'long'))
        b = choose('bit', nbits)
        w = cfgs[str(b)]['field_length'] or 6
        fam = ['0', '7', '007', '0' * (w + 4) + '1234'[:max(1, min(4, w))], '9' * w, '0' * w, '00' + '9' * w]
        v = choose('text', sorted(set(fam)))
        msg = {'MTI': '1240', 'DE%d' % b: v}
        rp = {'kind': 'encode', 'args': {'msg': msg, 'enc': enc, 'hexbm': hexbm, 'cfg': cfgs if custom else 'packaged'}}
        core.set_fallback(rp, 'C02/concretised')
        want = ref.ref_encode(msg, cfgs, enc, hexbm)
        with guard('dumps', 'C02/refused', rp):
            got = iso.dumps(dict(msg), encoding=enc, hex_bitmap=hexbm, iso_config=cfgs if custom else None)
        require(got == want, 'number given as text %r is not rendered as its value zero-padded to the field width' % v, key='C02/layout', replay=rp)
        return {'sample': {'bit': b, 'text': v}, 'replay': rp}
    return h


def reconfigured(enc, hexbm):
    """one configuration object used for a message with a PDSxxxx entry, edited in place so that another element carries the PDS data, and
    used again: both encodings follow the configuration as it is at the time of the call"""
    import copy
    from .c01 import RECONF_A, RECONF_B

    def h():
        core.FUEL.set(40)
        iso = M().iso8583
        cfg = copy.deepcopy(RECONF_A)
        wits = []

        def rp():
            return {'kind': 'reconfig_encode', 'args': {'msgs': [w(ev) for w in wits], 'cfgs': [RECONF_A, RECONF_B][:len(wits)], 'enc': enc, 'hexbm': hexbm}}
        core.set_fallback(rp, 'C02/concretised')
        for phase, (conf, carrier) in enumerate(((RECONF_A, 48), (RECONF_B, 62))):
            if phase:
                cfg.clear()
                cfg.update(copy.deepcopy(conf))
            e2 = Elem(2, cfg['2'], tag='_p%d' % phase, maxvar=40)
            ec = Elem(carrier, cfg[str(carrier)], tag='_p%d' % phase, maxvar=120)       # the carrier as the reference expects it on the wire
            pkey, pval = list(ec.pds.items())[0]
            msg = {'MTI': '1240', 'DE2': e2.value, pkey: pval}
            wits.append(lambda ev, e2=e2, pkey=pkey, pval=pval: {'MTI': '1240', 'DE2': e2.witness(ev), pkey: concretize(pval, ev) if isinstance(pval, Rope) else pval})
            with guard('dumps', 'C02/refused', rp):
                b = iso.dumps(dict(msg), encoding=enc, hex_bitmap=hexbm, iso_config=cfg)
            E = reference_bytes('1240', [e2, ec], enc, hexbm)
            req_eq(b, E, 'use %d of the configuration object: encoded bytes differ from the documented layout (PDS data belongs in DE%d)' % (phase + 1, carrier),
                   key='C02/layout', replay=rp)
        return {'sample': {'enc': enc}, 'replay': rp()}
    return h


UNENCODABLE = {'latin_1': ['SHOP \u20ac1', 'BAR \u0141\xd3D\u0179', '\u20ac'], 'cp500': ['SHOP \u20ac1', 'PRICE \u0141'], 'cp037': ['A\u20acB'],
               'ascii': ['CAF\xc9', 'SHOP \u20ac1']}


def unencodable_text(enc):
    """a text value with a character the chosen code page lacks cannot be represented: whenever dumps returns, the bytes have to be the
    documented layout - so it has to refuse (which it does with UnicodeEncodeError), never emit a field whose byte count disagrees with
    its width or its length prefix"""
    def h():
        from . import ref
        iso = M().iso8583
        cfgs = bit_config()
        b = choose('bit', [42, 43, 72, 2, 3])
        v = choose('text', UNENCODABLE[enc])
        other = choose('other', [None, 63])
        w = cfgs[str(b)].get('field_length') or 0
        if cfgs[str(b)]['field_type'] == 'FIXED':
            v = v.ljust(w)[:w] if len(v) <= w else v[:w]
        msg = {'MTI': '1240', 'DE%d' % b: v}
        if other:
            msg['DE%d' % other] = 'TRAILING ELEMENT'
        rp = {'kind': 'unencodable', 'args': {'msg': msg, 'enc': enc}}
        core.set_fallback(rp, 'C02/concretised')
        try:
            got = iso.dumps(dict(msg), encoding=enc)
        except core.ControlFlow:
            raise
        except Exception:
            return {'sample': {'bit': b, 'text': v, 'refused': True}, 'replay': rp}
        try:
            d, _ = ref.ref_decode(got, cfgs, enc, False)
        except ref.RefError as e:
            fail('a value that cannot be encoded was emitted as a malformed message: %s' % e, key='C02/unencodable', replay=rp)
        require(d.get('DE%d' % b) == (v if cfgs[str(b)]['field_type'] != 'FIXED' else v) and (not other or d.get('DE%d' % other) == 'TRAILING ELEMENT'),
                'a value that cannot be encoded was emitted and reads back differently', key='C02/unencodable', replay=rp)
        return {'sample': {'bit': b, 'text': v, 'refused': False}, 'replay': rp}
    return h


def unconfigured_element(enc, hexbm):
    """a message that carries a value for an element the configuration does not define cannot be laid out: whenever dumps returns, bitmap
    and data agree (so it has to refuse, as it does with KeyError, or leave the element out of both)"""
    def h():
        from . import ref, packaged
        iso = M().iso8583
        custom = choose('cfg', [False, True])
        cfgs = {'2': {'field_type': 'LLVAR', 'field_length': 0}, '3': {'field_type': 'FIXED', 'field_length': 6}} if custom else packaged.bit_config()
        unconf = choose('element', [b for b in (7, 11, 64, 96, 128 - 1 - 0) if str(b) not in cfgs] + ([4, 48] if custom else []))
        msg = {'MTI': '1240', 'DE2': '5412345678901234', 'DE3': '000000', 'DE%d' % unconf: choose('value', ['A1', 12, '0715101530'])}
        rp = {'kind': 'unconfigured', 'args': {'msg': msg, 'enc': enc, 'hexbm': hexbm, 'cfg': cfgs if custom else 'packaged'}}
        core.set_fallback(rp, 'C02/concretised')
        try:
            got = iso.dumps(dict(msg), encoding=enc, hex_bitmap=hexbm, iso_config=cfgs if custom else None)
        except core.ControlFlow:
            raise
        except Exception:
            return {'sample': {'element': unconf, 'refused': True}, 'replay': rp}
        try:
            d, _ = ref.ref_decode(got, cfgs, enc, hexbm)
        except ref.RefError as e:
            fail('dumps returned a message whose bitmap and data disagree: %s' % e, key='C02/unconfigured', replay=rp)
        require(d.get('DE2') == msg['DE2'] and d.get('DE3') == msg['DE3'], 'configured elements changed', key='C02/unconfigured', replay=rp)
        return {'sample': {'element': unconf, 'refused': False}, 'replay': rp}
    return h


def pds_overflow(enc):
    """more PDS data than the configured carrier elements can hold cannot be laid out: refused, never emitted with entries missing"""
    def h():
        from . import ref, packaged
        iso = M().iso8583
        custom = choose('cfg', ['one-carrier', 'packaged'])
        if custom == 'one-carrier':
            cfgs = {'2': {'field_type': 'LLVAR', 'field_length': 0}, '48': {'field_type': 'LLLVAR', 'field_length': 0, 'field_processor': 'PDS'}}
            msg = {'MTI': '1240', 'DE2': '5412345678901234', 'PDS0001': 'A' * 900, 'PDS0002': 'B' * 900}
        else:
            cfgs = packaged.bit_config()
            msg = {'MTI': '1240', 'DE2': '5412345678901234'}
            for i in range(6):
                msg['PDS%04d' % (i + 1)] = chr(65 + i) * 990
        rp = {'kind': 'pds_overflow', 'args': {'msg': msg, 'enc': enc, 'cfg': cfgs if custom == 'one-carrier' else 'packaged'}}
        core.set_fallback(rp, 'C02/concretised')
        try:
            got = iso.dumps(dict(msg), encoding=enc, iso_config=cfgs if custom == 'one-carrier' else None)
        except core.ControlFlow:
            raise
        except Exception:
            return {'sample': {'cfg': custom, 'refused': True}, 'replay': rp}
        d, _ = ref.ref_decode(got, cfgs, enc, False)
        lost = [k for k in msg if k.startswith('PDS') and d.get(k) != msg[k]]
        require(not lost, 'dumps returned a message from which %s is missing' % lost, key='C02/pds-overflow', replay=rp)
        return {'sample': {'cfg': custom, 'refused': False}, 'replay': rp}
    return h


DE43_FAMILY = [
    'ACME STORE\\12 HIGH ST\\MELBOURNE\\3103      VICAUS',
    'ACME STORE  \\12 HIGH ST   \\MELBOURNE   \\      3103VICAUS',
    'A\\B\\C\\ 90210    CA USA',
    'CORNER SHOP\\1 THE STREET\\LONDON\\SW1A 1AA  ENGGBR',
    'X\\Y\\Z\\          NSWAUS',
    'NO BACKSLASHES HERE 3103      VICAUS',
]


def de43_plumbing(enc):
    """DE43 sub-fields on concrete merchant strings (the regular expression engine runs natively): the derived entries must equal an
    independent reading that applies the configured pattern and right-strips the postcode, as documented"""
    def h():
        from . import ref
        iso = M().iso8583
        cfgs = bit_config()
        v = choose('de43', DE43_FAMILY)
        other = choose('other', [None, 3, 49])
        msg = {'MTI': '1240', 'DE43': v}
        if other:
            msg['DE%d' % other] = 'Z' * cfgs[str(other)]['field_length']
        rp = {'kind': 'decode', 'args': {'msg': msg, 'enc': enc, 'hexbm': False, 'cfg': 'packaged'}}
        core.set_fallback(rp, 'C02/concretised')
        wire = ref.ref_encode(msg, cfgs, enc, False)
        want, _ = ref.ref_decode(wire, cfgs, enc, False)
        with guard('loads', 'C02/decode-refused', rp):
            got = iso.loads(wire, encoding=enc)
        require(got == want, 'decoded entries differ from the independent reading: %s' % sorted(k for k in set(got) | set(want) if got.get(k) != want.get(k)),
                key='C02/de43', replay=rp)
        return {'sample': {'DE43': v, 'derived': {k: x for k, x in got.items() if k.startswith('DE43_')}}, 'replay': rp}
    return h


def de43_custom_pattern(enc):
    def h():
        from . import ref
        iso = M().iso8583
        cfgs = {'2': {'field_type': 'LLVAR', 'field_length': 0},
                '43': {'field_type': 'LLVAR', 'field_length': 0, 'field_processor': 'DE43',
                       'field_processor_config': choose('pattern', [r'(?P<DE43_NAME>[^\\]+?) *\\', r'(?P<DE43_NAME>.{3})(?P<DE43_REST>.{2})', r'(?P<DE43_NAME>.+?) *\\(?P<DE43_ADDRESS>.+?) *\\'])}}
        v = choose('de43', DE43_FAMILY)
        msg = {'MTI': '1240', 'DE2': '5412345678901234', 'DE43': v}
        rp = {'kind': 'decode', 'args': {'msg': msg, 'enc': enc, 'hexbm': False, 'cfg': cfgs}}
        core.set_fallback(rp, 'C02/concretised')
        wire = ref.ref_encode(msg, cfgs, enc, False)
        want, _ = ref.ref_decode(wire, cfgs, enc, False)
        with guard('loads', 'C02/decode-refused', rp):
            got = iso.loads(wire, encoding=enc, iso_config=cfgs)
        require(got == want, 'decoded entries differ from the independent reading: %s' % sorted(k for k in set(got) | set(want) if got.get(k) != want.get(k)),
                key='C02/de43', replay=rp)
        return {'sample': {'DE43': v, 'derived': {k: x for k, x in got.items() if k.startswith('DE43_')}}, 'replay': rp}
    return h


def obligations(tier):
    q = tier == 'quick'
    check_codecs()
    obs = []
    for direction, mk_h in (('enc', encode), ('dec', decode)):
        for enc in CODECS:
            for hexbm in (False, True):
                if q and hexbm and enc != 'cp500':
                    continue
                tag = '%s/%s/%s' % (direction, enc, 'hex' if hexbm else 'bin')
                obs.append(Ob('single/' + tag, mk_h(lambda: [choose('bit', configured_bits())], enc, hexbm), 300,
                              'each configured element alone; fixed text 0..w characters, variable 0/1..prefix capacity+25 (encode) / 0..capacity (decode), '
                              'numbers 0..10^w-1', _funcs, 'element subsets outside the family'))
        for enc in (CODECS if not q else ('latin_1', 'cp037')):
            pairs = family_pairs(not q)
            obs.append(Ob('pair/%s/%s/bin' % (direction, enc), mk_h(lambda pairs=pairs: list(choose('pair', pairs)), enc, False), 900,
                          '%d element pairs' % len(pairs), _funcs))
        for k, mix in enumerate(class_mixes()):
            for enc in (('latin_1',) if q else CODECS):
                obs.append(Ob('mix%d/%s/%s' % (k, direction, enc), mk_h(lambda mix=mix: list(mix), enc, k % 2 == 0), 900,
                              'elements %s together' % mix, _funcs))
        for name, cfg in GENERIC.items():
            gb = sorted(int(k) for k in cfg)
            obs.append(Ob('generic/%s/%s' % (direction, name), mk_h(lambda gb=gb: list(gb), 'cp500', False, cfgs=cfg), 600,
                          'caller-supplied configuration %s' % name, _funcs))
    for enc in (('latin_1', 'cp500') if q else CODECS):
        obs.append(Ob('dec/de43-family/%s' % enc, de43_plumbing(enc), 120,
                      'DE43 from a concrete family of merchant strings (blank-padded, right-aligned, all-blank postcode, no match), alone or next to another element', _funcs))
    for enc in (('latin_1', 'cp500') if q else ('latin_1', 'cp500', 'cp037', 'ascii')):
        obs.append(Ob('unencodable-text/%s' % enc, unencodable_text(enc), 120,
                      'text values with a character the code page lacks (concrete family), alone and followed by another element: refused, or emitted '
                      'in the documented layout', _funcs))
    dsub = [[8], [28], [8, 28], [3, 8, 28]]
    for direction, mk_h in (('enc', encode), ('dec', decode)):
        obs.append(Ob('generic/g-decimal/%s/cp500' % direction, mk_h(lambda: list(choose('subset', dsub)), 'cp500', False, cfgs=GENERIC_DEC), 300,
                      'caller-supplied configuration with decimal fields (FIXED 12 / LLVAR): concrete decimal values incl. exponent forms (1E+2, 2.5E+3, 1E-3)', _funcs))
    from . import c12
    obs.append(Ob('pds-packing/2-tags', c12.pack(['0023', '0158'], greedy=True), 120,
                  'two PDSxxxx entries, every pair of value lengths 0..992: carriers hold tag(4) length(3) value in ascending order, at most 999 each, '
                  'filled greedily (the C12 obligation, here for the layout of the encoded message)', _funcs))
    obs.append(Ob('pds-packing/3-tags', c12.pack(['0158', '0023', '0001'], greedy=True), 300,
                  'three PDSxxxx entries (given out of order), every triple of value lengths 0..992: what follows a split is packed greedily again', _funcs))
    obs.append(Ob('de43-prefix-pattern/latin_1', de43_custom_pattern('latin_1'), 120,
                  'caller-supplied DE43 pattern that describes only the beginning of the field: the groups it defines are returned', _funcs))
    obs.append(Ob('pds-overflow/latin_1', pds_overflow('latin_1'), 120,
                  'more PDS data than the carrier elements hold (one configured carrier and 2 x 900; packaged carriers and 6 x 990): refused, or nothing missing', _funcs))
    for enc, hexbm in (('latin_1', False), ('cp500', True)):
        obs.append(Ob('unconfigured-element/%s/%s' % (enc, 'hex' if hexbm else 'bin'), unconfigured_element(enc, hexbm), 120,
                      'a value for an element without configuration (packaged and a two-element caller configuration): refused, or bitmap and data agree', _funcs))
    for enc, hexbm in ((('cp500', False),) if q else (('cp500', False), ('latin_1', True))):
        obs.append(Ob('reconfigured/%s/%s' % (enc, 'hex' if hexbm else 'bin'), reconfigured(enc, hexbm), 300,
                      'a caller-supplied configuration object edited in place between two uses (the PDS carrier moves from DE48 to DE62)', _funcs))
    for enc, hexbm in ((('latin_1', False), ('cp500', True)) if q else [(e, hb) for e in CODECS for hb in (False, True)]):
        obs.append(Ob('numeric-text/%s/%s' % (enc, 'hex' if hexbm else 'bin'), numeric_text(enc, hexbm), 300,
                      'every numeric element (packaged and a custom configuration with FIXED and LLVAR numbers) x a family of digit strings '
                      '(zero, short spellings, leading zeros beyond the field width, all nines)', _funcs))
    return obs
