import copy


def _pan(n):
    return ''.join(str((i * 7 + 3) % 10) for i in range(n))


def replay_mask(n, mask):
    from cardutil import card
    v = _pan(n)
    out = card.mask(v) if mask is None else card.mask(v, mask)
    m = mask or '*'
    bad = len(out) != n or out[:6] != v[:6] or out[n - 4:] != v[n - 4:] or out[6:n - 4] != m * (n - 10)
    return bad, 'mask(%d digits) -> %r' % (n, out[:50]), 'C16/mask'


def replay_processor(proc, bit, n, other, enc, hexbm=False, prior=None, content=None):
    from cardutil import iso8583
    from cardutil.config import config
    first = {'MTI': '1240', 'DE%d' % bit: '1234567890123456', 'DE3': '000000'}
    if prior == 'copied-after-use':
        iso8583.loads(iso8583.dumps(first, encoding=enc), encoding=enc)
    from . import packaged
    cfgs = packaged.bit_config_copy()
    if prior == 'same-object':
        iso8583.loads(iso8583.dumps(first, encoding=enc, iso_config=cfgs), encoding=enc, iso_config=cfgs)
    cfgs[str(bit)]['field_processor'] = proc
    v = _pan(n)
    if content and len(content) == n:
        # the witness text of the symbolic run (arbitrary characters, e.g. a field separator), when the codec can carry it
        try:
            content.encode(enc)
            v = content
        except UnicodeEncodeError:
            pass
    msg = {'MTI': '1240', 'DE%d' % bit: v}
    if other:
        c = cfgs[str(other)]
        msg['DE%d' % other] = 'Z' * (c['field_length'] or 5)
    try:
        d = iso8583.loads(iso8583.dumps(dict(msg), encoding=enc, iso_config=cfgs, hex_bitmap=hexbm), encoding=enc, iso_config=cfgs, hex_bitmap=hexbm)
    except Exception as e:
        return True, 'raised %s' % type(e).__name__, 'C16/exception'
    want = v[:6] + '*' * (n - 10) + v[-4:] if proc == 'PAN' else v[:9]
    if d.get('DE%d' % bit) != want:
        return True, 'DE%d came back as %r' % (bit, d.get('DE%d' % bit)), 'C16/proc-value'
    secret = v[6:n - 4] if proc == 'PAN' else v[9:]
    if len(secret) >= 4:
        for k, val in d.items():
            if isinstance(val, str) and val is not want and secret in val:
                return True, 'clear PAN appears in %s' % k, 'C16/leak'
    return False, 'ok', None


def replay_maskdigits(digits, mask):
    from cardutil import card
    n = len(digits)
    out = card.mask(digits, mask)
    bad = len(out) != n or out[:6] != digits[:6] or out[n - 4:] != digits[n - 4:] or out[6:n - 4] != mask * (n - 10)
    return bad, 'mask(%s) -> %r' % (digits, out), 'C16/mask'


def replay_typed(proc, bit, pytype, pan):
    from cardutil import iso8583
    from cardutil.config import config
    from . import packaged
    cfgs = packaged.bit_config_copy()
    cfgs[str(bit)]['field_processor'] = proc
    if pytype:
        cfgs[str(bit)]['field_python_type'] = pytype
    wire = iso8583.dumps({'MTI': '1240', 'DE%d' % bit: pan}, iso_config=cfgs)
    try:
        d = iso8583.loads(wire, iso_config=cfgs)
    except iso8583.Iso8583DataError:
        return False, 'library error, no dictionary', None
    if pytype in ('int', 'long'):
        pan = pan.zfill(cfgs[str(bit)].get('field_length', 0))
    want = (pan[:6] + '*' * (len(pan) - 10) + pan[-4:]) if proc == 'PAN' else pan[:9]
    got = d.get('DE%d' % bit)
    if str(got) != want and not (pytype in ('int', 'long') and proc == 'PAN-PREFIX' and got == int(want)):
        return True, '%s with python type %s: DE%d came back as %r (clear PAN %s)' % (proc, pytype, bit, got, pan), 'C16/proc-value'
    return False, 'ok', None


def replay_default_route(proc, n, via):
    import io
    from cardutil import iso8583, mciipm
    from cardutil.config import config
    from . import packaged
    new = packaged.bit_config_copy()
    new['2']['field_processor'] = proc
    v = _pan(n)
    wire = iso8583.dumps({'MTI': '1240', 'DE2': v, 'DE3': '000000'}, iso_config=new)
    old = config['bit_config']
    config['bit_config'] = new
    try:
        try:
            if via == 'loads':
                d = iso8583.loads(wire)
            else:
                f = io.BytesIO()
                w = mciipm.VbsWriter(f)
                w.write(wire)
                w.close()
                d = next(mciipm.IpmReader(f))
        except Exception as e:
            return True, 'raised %s' % type(e).__name__, 'C16/exception'
    finally:
        config['bit_config'] = old
    want = v[:6] + '*' * (n - 10) + v[-4:] if proc == 'PAN' else v[:9]
    if d.get('DE2') != want:
        return True, 'DE2 came back as %r under the installed default configuration' % d.get('DE2'), 'C16/proc-value'
    return False, 'ok', None
