"""C09 -- a file cut short at any byte yields only its complete records, then stops/errors"""
from vsym.runner import Ob
from .common import *
from vsym.core import s_min

PROPERTY = 'C09'
DEBUG_LOG = ['cut1/vbs/blocked', 'cut1/ipm/blocked']      # obligations that are also explored with debug logging switched on
PYTHON_O = ['cut1/vbs/blocked', 'cut1/ipm/unblocked']      # obligations that are also explored with the modules compiled as under python -O
ASSUMPTIONS = [
    'file object = RopeFile; truncation = prefix of the writer output at a symbolic byte offset t (every offset 0..len)',
    'record content opaque; a cut inside a 4-byte length prefix leaves an opaque fragment that unpacks only when re-joined whole',
]


def _funcs():
    m = M().mciipm
    return [m.VbsReader.__next__, m.IpmReader.__next__, m.Unblock1014.read, m.VbsWriter.write, m.VbsWriter.close, m.Block1014.write]


def truncated(kind, blocked, bounds, tsplit=None, api='class'):
    nblocks = (sum(b[1] if isinstance(b, tuple) else b for b in bounds) + 4 * len(bounds) + 4) // 1012 + 2

    def h():
        core.FUEL.set(nblocks + 4)
        m = M().mciipm
        ns = [sym_int('len%d' % i, *(b if isinstance(b, tuple) else (1, b))) for i, b in enumerate(bounds)]
        f = RopeFile()
        t = sym_int('t', 0, 20000)
        recs = vals = None

        def rp():
            a = {'kind': kind, 'blocked': blocked, 'lengths': [ev(n) for n in ns], 't': ev(t), 'api': api}
            a['items'] = [concretize(r, ev) for r in recs] if kind == 'vbs' else [concretize(v, ev) for v in vals]
            return {'kind': 'truncate', 'args': a}
        core.set_fallback(rp, 'C09/concretised')
        if kind == 'vbs':
            recs = [Source('rec%d' % i, 'b', n).rope() for i, n in enumerate(ns)]
            core.set_fallback(rp, 'C09/altered')
            w = m.VbsWriter(f, blocked=blocked)
            for r in recs:
                w.write(r)
            w.close()
            ends = []
            pos = 0
            for n in ns:
                pos = pos + 4 + n
                ends.append(pos)
        else:
            vals = [Source('val%d' % i, 't', n).rope() for i, n in enumerate(ns)]
            core.set_fallback(rp, 'C09/altered')
            w = m.IpmWriter(f, blocked=blocked)
            for v in vals:
                w.write({'MTI': '1144', 'DE2': v})
            w.close()
            ends = []
            pos = 0
            for n in ns:
                pos = pos + 4 + 20 + 2 + n
                ends.append(pos)
        data = f.getvalue()
        size = rlen(data)
        assume(t <= size)
        if tsplit is not None:
            lo, hi = tsplit
            assume(t >= lo)
            if hi is not None:
                assume(t < hi)
        cut = sl(data, 0, t)
        # surviving payload bytes
        if blocked:
            surv = (t // 1014) * 1012 + s_min(t % 1014, 1012)
        else:
            surv = t
        got = []
        end = None
        if api == 'func':
            # the list/bytes convenience function: either the library error, or exactly the complete records
            core.FUEL.set(nblocks + 8)
            try:
                got = m.vbs_bytes_to_list(cut, blocked=True) if blocked else m.vbs_bytes_to_list(cut)
                end = 'stop'
            except m.MciIpmDataError:
                got, end = [], 'error-func'
            except core.OutOfFuel:
                fail('vbs_bytes_to_list does not return on truncated data', key='C09/hang', replay=rp)
            except core.ControlFlow:
                raise
            except Exception as e:
                fail('vbs_bytes_to_list raised %s on truncated data' % type(e).__name__, key='C09/exception', replay=rp)
            require(len(got) <= len(ns), 'reader invented a record', key='C09/invented', replay=rp)
        else:
            rd = (m.VbsReader if kind == 'vbs' else m.IpmReader)(RopeFile(cut), blocked=blocked)
        while api != 'func':
            core.FUEL.set(nblocks + 4)
            try:
                got.append(next(rd))
            except StopIteration:
                end = 'stop'
                break
            except m.MciIpmDataError:
                end = 'error'
                break
            except core.OutOfFuel:
                fail('the reader does not return on a truncated file', key='C09/hang', replay=rp)
            except core.ControlFlow:
                raise
            except Exception as e:
                fail('reader raised %s on a truncated file' % type(e).__name__, key='C09/exception', replay=rp)
            if len(got) > len(ns):
                fail('reader invented a record', key='C09/invented', replay=rp)
        c = len(got)
        for i in range(c):
            require(ends[i] <= surv, 'record %d delivered although it is not wholly contained in the surviving bytes' % (i + 1),
                    key='C09/partial', replay=rp)
            if kind == 'vbs':
                req_eq(got[i], recs[i], 'record %d altered' % (i + 1), key='C09/altered', replay=rp)
            else:
                req_eq(got[i].get('DE2'), vals[i], 'record %d altered' % (i + 1), key='C09/altered', replay=rp)
        if c < len(ns) and end != 'error-func':
            require(s_not(ends[c] <= surv), 'complete record %d was not delivered' % (c + 1), key='C09/lost', replay=rp)
        return {'sample': {'lengths': [ev(n) for n in ns], 't': ev(t), 'size': ev(size), 'delivered': c, 'end': end}, 'replay': rp()}
    return h


def obligations(tier):
    q = tier == 'quick'
    obs = []
    for kind in ('vbs', 'ipm'):
        mx = 2500 if kind == 'vbs' else 99
        for blocked in (False, True):
            tag = '%s/%s' % (kind, 'blocked' if blocked else 'unblocked')
            obs.append(Ob('cut1/' + tag, truncated(kind, blocked, [mx]), 300,
                          'one record of length 1..%d, every cut offset 0..len(file)' % mx, _funcs))
            if kind == 'ipm' or not blocked:
                obs.append(Ob('cut2/' + tag, truncated(kind, blocked, [mx, mx]), 400,
                              'two records of length 1..%d, every cut offset' % mx, _funcs))
            else:
                nb = (2 * mx + 12) // 1012 + 2
                for j in range(nb):
                    obs.append(Ob('cut2/%s/t-in-block-%d' % (tag, j), truncated(kind, blocked, [mx, mx], (j * 1014, (j + 1) * 1014 if j < nb - 1 else None)), 600,
                                  'two records of length 1..%d, cut offset in block %d' % (mx, j), _funcs))
    for blocked in (False, True):
        obs.append(Ob('cut2-max/vbs/%s' % ('blocked' if blocked else 'unblocked'), truncated('vbs', blocked, [(5996, 6000), 30]), 600,
                      'a record of 5996..6000 bytes (up to the configured maximum) followed by a short one, every cut offset', _funcs))
    for blocked in (False, True):
        obs.append(Ob('cut2-func/vbs/%s' % ('blocked' if blocked else 'unblocked'), truncated('vbs', blocked, [1200, 600] if blocked else [2500, 2500], api='func'), 400,
                      'vbs_bytes_to_list on truncated data (no options for plain VBS, blocked=True for 1014): two records, every cut offset', _funcs))
    if not q:
        obs.append(Ob('cut3/vbs/unblocked', truncated('vbs', False, [6000, 6000, 6000]), 600, 'three records 1..6000, every cut offset', _funcs))
    from . import c05
    obs.append(Ob('cut-anywhere/unblocker/read-without-size', c05.readall(3062, 4), 120,
                  'the unblocker under the blocked readers on a file of any length 0..3062 (a blocked file cut at any byte), from any reachable state '
                  '(some sized reads done): read() returns everything that remains of the payload (the C05 obligation)', _funcs))
    from . import c03
    obs.append(Ob('uncut/configured-max-raised/unblocked', c03.configured_max(8000, False), 300,
                  'MAX_VBS_RECORD_LENGTH raised to 8000 at run time, a complete file (cut at its end) with one record of every length 1..8000: the record is yielded', _funcs))
    return obs
