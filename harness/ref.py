"""concrete reference readings used by the replay functions (plain Python, no vsym)"""
import struct

PAD = b'\x40'


def content(n, salt=0):
    """position-coded bytes: any misplaced byte is visible"""
    return bytes(((i * 7 + salt * 13 + (i >> 8)) % 251) + 1 for i in range(n))


def unblock_ref(data, final=True):
    """-> (payload bytes, problem or None)"""
    size = len(data)
    if final and size % 1014:
        return None, 'size %d is not a multiple of 1014' % size
    nfull = size // 1014
    out = b''
    for j in range(nfull):
        blk = data[j * 1014:(j + 1) * 1014]
        if blk[1012:] != PAD * 2:
            return None, 'block %d trailer is %r' % (j, blk[1012:])
        out += blk[:1012]
    if not final:
        rest = data[nfull * 1014:]
        if len(rest) > 1012:          # exactly 1012 = payload complete, trailer pending: a legal intermediate state
            return None, 'partial block of %d bytes without trailer' % len(rest)
        out += rest
    return out, None


def blocked_problem(data, written, final=True):
    """why `data` is not a correct 1014 rendering of `written` (None if it is)"""
    payload, prob = unblock_ref(data, final)
    if prob:
        return prob
    if final:
        if payload[:len(written)] != written:
            return 'payload does not start with the bytes written'
        fill = payload[len(written):]
        if fill.strip(PAD):
            return 'non-fill bytes after the data'
        if len(fill) >= 2 * 1012:
            return 'more than one all-fill block'
        return None
    if payload != written:
        return 'payload differs from the bytes written'
    return None


def vbs_ref(records):
    return b''.join(struct.pack('>I', len(r)) + r for r in records) + struct.pack('>I', 0)


def vbs_parse_ref(stream, max_len=6000):
    """strict independent VBS reading -> (records, end) ; end in ('eof', 'terminator', 'error')"""
    recs = []
    pos = 0
    while True:
        if len(stream) - pos < 4:
            return recs, 'eof'
        n = struct.unpack('>I', stream[pos:pos + 4])[0]
        if n == 0:
            return recs, 'terminator'
        if n > max_len:
            return recs, 'error'
        if len(stream) - pos - 4 < n:
            return recs, 'error'
        recs.append(stream[pos + 4:pos + 4 + n])
        pos += 4 + n


# ---------------------------------------------------------------- ISO8583 reference codec (from the documentation)
import binascii
import datetime
import re

PDS_CARRIERS = (48, 62, 123, 124, 125)
SAMPLE_DATE = datetime.datetime(2021, 3, 4, 5, 6, 7)


class RefError(Exception):
    pass


def _flen(cfg):
    return {'LLVAR': 2, 'LLLVAR': 3}.get(cfg['field_type'], 0)


def ref_bitmap(bits, bit1=True):
    v = (1 << 127) if bit1 else 0
    for b in bits:
        v |= 1 << (128 - b)
    return v.to_bytes(16, 'big')


def ref_pack_pds(msg):
    keys = sorted(k for k in msg if k.startswith('PDS'))
    out, cur = [], ''
    for k in keys:
        v = msg[k]
        add = '%04d%03d%s' % (int(k[3:]), len(v), v)
        if len(cur) + len(add) > 999:
            out.append(cur)
            cur = ''
        cur += add
    if cur:
        out.append(cur)
    return out


def ref_encode(msg, cfgs, enc='latin_1', hex_bitmap=False, keep_empty=False):
    msg = dict(msg)
    carriers = sorted(int(k) for k in cfgs if cfgs[k].get('field_processor') == 'PDS')
    for c, s in zip(carriers, ref_pack_pds(msg)):
        msg['DE%d' % c] = s
    bits = sorted(int(k[2:]) for k, v in msg.items() if k.startswith('DE') and k[2:].isdigit() and (v or v == 0 or keep_empty))
    body = b''
    for b in bits:
        cfg = cfgs[str(b)]
        v = msg['DE%d' % b]
        w = cfg.get('field_length', 0)
        pt = cfg.get('field_python_type')
        if pt in ('int', 'long'):
            v = '%0*d' % (w, int(v))
        elif pt == 'decimal':
            v = format(v, '0%df' % w)
        elif pt == 'datetime':
            v = v.strftime(cfg.get('field_date_format', '%y%m%d'))
        n = _flen(cfg)
        if n:
            if len(v) > 10 ** n - 1:
                raise RefError('DE%d: %d characters cannot be counted by a %d-digit prefix' % (b, len(v), n))
            body += ('%0*d' % (n, len(v))).encode(enc)
            body += v if isinstance(v, bytes) else v.encode(enc)
        else:
            v = v if isinstance(v, bytes) else v.ljust(w)[:w].encode(enc)
            body += v
    bm = ref_bitmap(bits)
    if hex_bitmap:
        bm = binascii.hexlify(bm)
    return msg['MTI'].encode(enc) + bm + body


def ref_icc(data):
    out = {'ICC_DATA': data.hex()}
    i = 0
    while i < len(data):
        if data[i] in (0x9f, 0x5f):
            tag = data[i:i + 2]
            i += 2
        else:
            tag = data[i:i + 1]
            i += 1
        if tag == b'\x00':
            break
        if i >= len(data):
            raise RefError('ICC tag without length')
        ln = data[i]
        out['TAG' + tag.hex().upper()] = data[i + 1:i + 1 + ln].hex()
        i += 1 + ln
    return out


_PLAIN = re.compile(r'^[0-9]+$')


def ref_decode(data, cfgs, enc='latin_1', hex_bitmap=False, strict_digits=True):
    """strict independent reading; raises RefError when the message is not well framed.
    returns (dict, dontcare) -- dontcare=True when a numeral was not plain decimal digits"""
    hl = 36 if hex_bitmap else 20
    if len(data) < hl:
        raise RefError('short header')
    out = {}
    dontcare = False
    try:
        out['MTI'] = data[:4].decode(enc)
    except UnicodeError:
        raise RefError('MTI undecodable')
    if not _PLAIN.match(out['MTI']):
        try:
            int(out['MTI'])
            dontcare = True
        except ValueError:
            raise RefError('MTI not numeric')
    bm = data[4:hl]
    if hex_bitmap:
        try:
            bm = binascii.unhexlify(bm)
        except binascii.Error:
            raise RefError('bitmap not hex')
    bits = [i + 1 for i in range(128) if bm[i // 8] & (0x80 >> (i % 8))]
    pos = hl
    for b in bits:
        if b == 1:
            continue
        cfg = cfgs.get(str(b))
        if not cfg:
            raise RefError('no configuration for bit %d' % b)
        n = _flen(cfg)
        ln = cfg.get('field_length', 0)
        if n:
            raw = data[pos:pos + n]
            try:
                txt = raw.decode(enc)
            except UnicodeError:
                raise RefError('length undecodable')
            if len(raw) < n:
                raise RefError('truncated length prefix')
            if not _PLAIN.match(txt):
                try:
                    ln = int(txt)
                    dontcare = True
                except ValueError:
                    raise RefError('length not numeric')
                if ln < 0:
                    raise RefError('negative length')
            else:
                ln = int(txt)
            pos += n
        raw = data[pos:pos + ln]
        if len(raw) < ln:
            raise RefError('DE%d runs past the end of the message' % b)
        pos += ln
        proc = cfg.get('field_processor')
        if proc == 'ICC':
            out['DE%d' % b] = raw
            out.update(ref_icc(raw))
            continue
        try:
            v = raw.decode(enc)
        except UnicodeError:
            raise RefError('DE%d undecodable' % b)
        if proc == 'PAN':
            v = v[:6] + '*' * (len(v) - 10) + v[-4:]
        if proc == 'PAN-PREFIX':
            v = v[:9]
        pt = cfg.get('field_python_type')
        if pt in ('int', 'long'):
            if not _PLAIN.match(v):
                dontcare = True
            try:
                v = int(v)
            except ValueError:
                raise RefError('DE%d not a number' % b)
        elif pt == 'decimal':
            import decimal
            try:
                v = decimal.Decimal(v)
            except decimal.InvalidOperation:
                raise RefError('DE%d not a decimal' % b)
        elif pt == 'datetime':
            try:
                v = datetime.datetime.strptime(v, cfg.get('field_date_format', '%y%m%d'))
            except ValueError:
                raise RefError('DE%d not a date' % b)
        out['DE%d' % b] = v
        if proc == 'PDS':
            p = 0
            while p < len(v):
                tag, l3 = v[p:p + 4], v[p + 4:p + 7]
                if len(l3) < 3:
                    raise RefError('PDS header truncated')
                if not _PLAIN.match(l3):
                    try:
                        k = int(l3)
                        dontcare = True
                    except ValueError:
                        raise RefError('PDS length not numeric')
                    if k < 0:
                        raise RefError('negative PDS length')
                else:
                    k = int(l3)
                if p + 7 + k > len(v):
                    raise RefError('PDS value runs past the carrier')
                out['PDS' + tag] = v[p + 7:p + 7 + k]
                p += 7 + k
        if proc == 'DE43' and cfg.get('field_processor_config'):
            m = re.match(cfg['field_processor_config'], v)
            if m:
                g = m.groupdict()
                if g.get('DE43_POSTCODE'):
                    g['DE43_POSTCODE'] = g['DE43_POSTCODE'].rstrip()
                out.update(g)
    if pos != len(data):
        raise RefError('%d bytes left over' % (len(data) - pos))
    return out, dontcare


def concrete_msg(msg, cfgs=None):
    """JSON witness -> python values (dates are {'date': True}: a date representable in the element's format)"""
    out = {}
    for k, v in msg.items():
        if isinstance(v, dict) and 'decimal' in v:
            import decimal
            v = decimal.Decimal(v['decimal'])
        elif isinstance(v, dict) and isinstance(v.get('date'), list):
            v = datetime.datetime(*v['date'])
        elif isinstance(v, dict) and v.get('date'):
            v = SAMPLE_DATE
            if cfgs is not None and k.startswith('DE'):
                fmt = cfgs.get(k[2:], {}).get('field_date_format', '%y%m%d')
                v = datetime.datetime.strptime(v.strftime(fmt), fmt)
        out[k] = v
    return out
