"""concrete reference readings used by the replay functions (plain Python, no vsym)"""
import struct

PAD = b'\x40'


def content(n, salt=0):
    """position-coded bytes: any misplaced byte is visible"""
    return bytes(((i * 7 + salt * 13 + (i >> 8)) % 251) + 1 for i in range(n))


def unblock_ref(data, final=True):
    """-> (payload bytes, problem or None)"""
    size = len(data)
    if final and size % 1014:
        return None, 'size %d is not a multiple of 1014' % size
    nfull = size // 1014
    out = b''
    for j in range(nfull):
        blk = data[j * 1014:(j + 1) * 1014]
        if blk[1012:] != PAD * 2:
            return None, 'block %d trailer is %r' % (j, blk[1012:])
        out += blk[:1012]
    if not final:
        rest = data[nfull * 1014:]
        if len(rest) >= 1012:
            return None, 'partial block of %d bytes without trailer' % len(rest)
        out += rest
    return out, None


def blocked_problem(data, written, final=True):
    """why `data` is not a correct 1014 rendering of `written` (None if it is)"""
    payload, prob = unblock_ref(data, final)
    if prob:
        return prob
    if final:
        if payload[:len(written)] != written:
            return 'payload does not start with the bytes written'
        fill = payload[len(written):]
        if fill.strip(PAD):
            return 'non-fill bytes after the data'
        if len(fill) >= 2 * 1012:
            return 'more than one all-fill block'
        return None
    if payload != written:
        return 'payload differs from the bytes written'
    return None


def vbs_ref(records):
    return b''.join(struct.pack('>I', len(r)) + r for r in records) + struct.pack('>I', 0)


def vbs_parse_ref(stream, max_len=6000):
    """strict independent VBS reading -> (records, end) ; end in ('eof', 'terminator', 'error')"""
    recs = []
    pos = 0
    while True:
        if len(stream) - pos < 4:
            return recs, 'eof'
        n = struct.unpack('>I', stream[pos:pos + 4])[0]
        if n == 0:
            return recs, 'terminator'
        if n > max_len:
            return recs, 'error'
        if len(stream) - pos - 4 < n:
            return recs, 'error'
        recs.append(stream[pos + 4:pos + 4 + n])
        pos += 4 + n
