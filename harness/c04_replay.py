import io
from . import ref


def replay_writes(lengths, end, data=None):
    from cardutil import mciipm
    f = io.BytesIO()
    blk = mciipm.Block1014(f)
    given = data or []
    data = [given[i] if i < len(given) and given[i] is not None and len(given[i]) == n else ref.content(n, i) for i, n in enumerate(lengths)]
    for d in data:
        blk.write(d)
    if end == 'finalise':
        blk.finalise()
    elif end == 'seek':
        blk.seek(0)
        if f.tell() != 0:
            return True, 'seek(0) left the file at %d' % f.tell(), 'C04/seek'
    elif end == 'close':
        g = f.getvalue
        keep = []
        f.close = lambda: keep.append(g())
        blk.close()
        out = keep[0] if keep else None
        if out is None:
            return True, 'close did not close the wrapped file', 'C04/close'
        prob = ref.blocked_problem(out, b''.join(data), True)
        return (prob is not None), prob or 'ok', 'C04/layout'
    out = f.getvalue()
    prob = ref.blocked_problem(out, b''.join(data), end is not None)
    if prob is None and end is None:
        want = 1012 - len(out) % 1014
        if blk.remaining_chars != want:
            prob = 'remaining_chars=%r, file position implies %d' % (blk.remaining_chars, want)
    if prob is None and end is not None and blk.remaining_chars != 1012:
        prob = 'remaining_chars=%r after finalise' % blk.remaining_chars
    return (prob is not None), prob or 'ok', 'C04/layout'


def replay_oneshot(n, data=None):
    from cardutil import mciipm
    d = data if data is not None and len(data) == n else ref.content(n)
    fi, fo = io.BytesIO(d), io.BytesIO()
    mciipm.block_1014(fi, fo)
    O = fo.getvalue()
    prob = None
    if n:
        prob = ref.blocked_problem(O, d, True)
    elif len(O) % 1014:
        prob = 'empty input gave %d bytes' % len(O)
    f2 = io.BytesIO()
    blk = mciipm.Block1014(f2)
    blk.write(d)
    blk.finalise()
    S = f2.getvalue()
    if prob is None:
        if S[:len(O)] != O:
            prob = 'streaming and one-shot outputs differ'
        elif S[len(O):] not in (b'', b'\x40' * 1014):
            prob = 'outputs differ by more than one all-fill block'
    return (prob is not None), prob or 'ok', 'C04/oneshot'
