"""C20 -- CSV to IPM to CSV returns the same rows"""
import sys
import types
from vsym.runner import Ob
from vsym import models
from .common import *
from .isomsg import *
from vsym.rope import Tok

PROPERTY = 'C20'
DEBUG_LOG = ['rows1/latin_1/1014']      # obligations that are also explored with debug logging switched on
PYTHON_O = ['rows1/latin_1/1014', 'cli/entry-points']      # obligations that are also explored with the modules compiled as under python -O
ASSUMPTIONS = [
    'the CSV layer is a row-level stub (DictReader yields the supplied row dicts, DictWriter records rows restricted to fieldnames): quoting of commas, '
    'quotes and spaces is done by the C _csv module and is outside this technique; the claim is cardutil\'s row -> dict -> message -> dict -> row path',
    'text cells opaque with symbolic length; numeric cells are the plain decimal rendering of a symbolic integer (variable width, no padding); '
    'date cells are the ISO rendering of an opaque datetime; dateutil.parser.parse is a stub that inverts that rendering (its documented contract)',
    'command entry points on real files (argparse, open) are outside',
]
ISO = '%Y-%m-%d %H:%M:%S'


def _funcs():
    m = M()
    return [m.mci_csv_to_ipm.mci_csv_to_ipm, m.mci_ipm_to_csv.mci_ipm_to_csv, m.mci_ipm_to_csv.dicts_to_csv, m.iso8583._pytype_to_string,
            m.iso8583._get_date_from_string, m.iso8583._string_to_pytype, m.mciipm.IpmWriter.write, m.mciipm.IpmReader.__next__]


def install_dateutil_stub():
    import dateutil
    import dateutil.parser as real
    if getattr(sys.modules.get('dateutil.parser'), '_vsym_stub', False):
        return
    stub = types.ModuleType('dateutil.parser')
    stub._vsym_stub = True

    def parse(text, *a, **k):
        if isinstance(text, Rope):
            at = rope.whole_atom(text)
            if isinstance(at, Tok) and at.fmt == ISO and not at.chain:
                if a or (set(k) - {'dayfirst', 'yearfirst'}):
                    raise core.Unsupported('dateutil.parser.parse with options %s' % sorted(k))
                if k.get('dayfirst'):
                    # dateutil reads YYYY-MM-DD with dayfirst as year-day-month whenever that is a date (day field <= 12)
                    d = at.d
                    if d.c['d'] <= 12:
                        c = dict(d.c)
                        c['m'], c['d'] = d.c['d'], d.c['m']
                        return SymDate(d.name + '/dayfirst', comps=c)
                return at.d
            raise core.Unsupported('dateutil.parser.parse on abstract text')
        return real.parse(text, *a, **k)
    stub.parse = parse
    sys.modules['dateutil.parser'] = stub
    dateutil.parser = stub


SHAPES20 = [
    ['DE2', 'DE4', 'DE12'],
    ['DE3', 'DE26', 'DE63', 'PDS0023'],
    ['DE31', 'DE71', 'DE73', 'PDS0148', 'PDS0158'],
    ['DE33', 'DE38', 'DE100', 'DE30', 'DE14'],
    ['DE2', 'DE22', 'DE49', 'DE93', 'PDS0165', 'DE42'],
]


def cell(col, cfgs, tag, pdsmax=200):
    """(cell value as it appears in the CSV row, expected value in the output row)"""
    name = col.lower() + tag
    if col.startswith('PDS'):
        n = sym_int(name + '_len', 1, pdsmax)
        v = Source(name, 't', n).rope()
        return v, v, lambda ev: concretize(v, ev)
    cfg = cfgs[col[2:]]
    pt = cfg.get('field_python_type')
    w = cfg.get('field_length', 0)
    if pt in ('int', 'long'):
        n = sym_int(name, 0, 10 ** w - 1)
        return mk('t', [Num(n, 1)]), n, lambda ev: str(ev(n))
    if pt == 'datetime':
        d = SymDate(name, fmt=cfg.get('field_date_format', '%y%m%d'))
        return mk('t', [Tok(d, ISO, 19)]), d, lambda ev: d.witness(ev)
    if cfg['field_type'] == 'FIXED':
        v = Source(name, 't', w).rope()
        return v, v, lambda ev: concretize(v, ev)
    top = 10 ** flen(cfg) - 1
    n = sym_int(name + '_len', 1, min(top, 300))
    v = Source(name, 't', n).rope()
    return v, v, lambda ev: concretize(v, ev)


def csv_roundtrip(nrows, enc, blocked, shapes=None, pdsmax=200, second_config=False):
    def h():
        core.FUEL.set(40)
        install_dateutil_stub()
        m = M()
        from . import packaged
        config = m.config.config                       # the tools are handed the library's own configuration object, as the commands do
        cfgs = packaged.bit_config()                   # expectations (cell kinds, column list) come from the frozen documented configuration
        cols_out = packaged.output_columns()
        rows, expects, wit = [], [], []
        allcols = ['MTI']
        for i in range(nrows):
            shape = choose('shape%d' % i, shapes or SHAPES20)
            row = {'MTI': '1240'}
            exp = {'MTI': '1240'}
            w = {'MTI': lambda ev: '1240'}
            for c in shape:
                row[c], exp[c], w[c] = cell(c, cfgs, '_r%d' % i, pdsmax)
                if c not in allcols:
                    allcols.append(c)
            rows.append(row)
            expects.append(exp)
            wit.append(w)
        # a CSV table has the same columns in every row: cells of columns a row does not use are empty
        for row in rows:
            for c in allcols:
                row.setdefault(c, '')

        def rp():
            return {'kind': 'csv', 'args': {'rows': [{c: f(ev) for c, f in w.items()} for w in wit], 'cols': allcols, 'enc': enc, 'blocked': blocked,
                                            'second_config': second_config}}
        core.set_fallback(rp, 'C20/concretised')
        if second_config:
            # the process has converted a table with the packaged configuration before; this conversion uses a configuration of its own in which
            # DE48 is plain text (the PDS columns travel in DE62 and the later carriers)
            import copy
            warm = RopeFile()
            m.mci_csv_to_ipm.mci_csv_to_ipm(models.CsvIn(['MTI', 'DE2', 'PDS0023'], [{'MTI': '1240', 'DE2': '4444555566667777', 'PDS0023': 'warm'}]),
                                            warm, config, out_encoding=enc, no1014blocking=not blocked)
            config = copy.deepcopy(config)
            del config['bit_config']['48']['field_processor']
        ipm = RopeFile()
        with guard('mci_csv_to_ipm', 'C20/exception', rp):
            m.mci_csv_to_ipm.mci_csv_to_ipm(models.CsvIn(allcols, rows), ipm, config, out_encoding=enc, no1014blocking=not blocked)
        out = models.CsvOut()
        core.FUEL.set(40)
        with guard('mci_ipm_to_csv', 'C20/exception', rp):
            m.mci_ipm_to_csv.mci_ipm_to_csv(RopeFile(ipm.getvalue()), out, config, in_encoding=enc, no1014blocking=not blocked)
        require(out.header == cols_out, 'CSV header is not the configured column list', key='C20/header', replay=rp)
        require(len(out.rows) == nrows, 'extracted %d rows from %d' % (len(out.rows), nrows), key='C20/rows', replay=rp)
        for i, (got, exp) in enumerate(zip(out.rows, expects)):
            for c, v in exp.items():
                g = got.get(c)
                if isinstance(v, (int, SInt)) and not isinstance(v, bool):
                    require(isinstance(g, (int, SInt)) and not isinstance(g, bool) and s_eq(g, v), 'row %d column %s: number changed' % (i + 1, c), key='C20/value', replay=rp)
                elif isinstance(v, SymDate):
                    require(models.dates_equal(g, v), 'row %d column %s: date changed' % (i + 1, c), key='C20/value', replay=rp)
                else:
                    require(g is not None and g != '', 'row %d column %s lost' % (i + 1, c), key='C20/value', replay=rp)
                    req_eq(g, v, 'row %d column %s changed' % (i + 1, c), key='C20/value', replay=rp)
            # an empty cell means "absent": a column the row did not supply stays empty (carrier / derived columns are not input columns here)
            for c in allcols:
                if c not in exp:
                    g = got.get(c)
                    require(g is None or (not isinstance(g, (int, SInt)) and rlen(g) == 0), 'row %d: column %s was left empty but comes back with a value' % (i + 1, c),
                            key='C20/value-appeared', replay=rp)
        return {'sample': {'cols': allcols, 'enc': enc, 'blocked': blocked, 'rows': nrows}, 'replay': rp()}
    return h


def cli_entry_points():
    """the command entry points (cli_run) on a virtual file system: files are opened in the right mode and with the encodings the user asked
    for, and the rows survive"""
    import contextlib
    import io as _io

    def h():
        core.FUEL.set(40)
        install_dateutil_stub()
        m = M()
        from . import packaged
        cfgs = packaged.bit_config()
        in_enc = choose('csv_in_encoding', [None, 'latin_1', 'utf-16'])
        out_enc = choose('csv_out_encoding', [None, 'latin_1', 'cp1252', 'utf-16'])
        ipm_enc = choose('ipm_encoding', [None, 'cp500'])
        noblock = choose('no1014blocking', [False, True])
        row = {'MTI': '1240'}
        exp = {}
        for c in ['DE2', 'DE4', 'DE38']:
            row[c], exp[c], _ = cell(c, cfgs, '_cli')
        cols = list(row)
        rp = {'kind': 'cli', 'args': {'in_enc': in_enc, 'out_enc': out_enc, 'ipm_enc': ipm_enc, 'noblock': noblock}}
        core.set_fallback(rp, 'C20/concretised')
        models.VFS.reset()
        models.VFS.files['in.csv'] = models.CsvIn(cols, [row])
        with contextlib.redirect_stdout(_io.StringIO()):
            with guard('mci_csv_to_ipm.cli_run', 'C20/cli-exception', rp):
                m.mci_csv_to_ipm.cli_run(in_filename='in.csv', out_filename='out.ipm', in_encoding=in_enc, out_encoding=ipm_enc,
                                         no1014blocking=noblock, config_file=None, debug=False)
            with guard('mci_ipm_to_csv.cli_run', 'C20/cli-exception', rp):
                rc = m.mci_ipm_to_csv.cli_run(in_filename='out.ipm', out_filename='back.csv', in_encoding=ipm_enc, out_encoding=out_enc,
                                              no1014blocking=noblock, config_file=None, debug=False)
        require(rc is None, 'extraction of the file just written reported an error', key='C20/cli', replay=rp)
        opened = {(o['name'], o['mode'][0]): o for o in models.VFS.opened}
        require(opened.get(('in.csv', 'r'), {}).get('encoding') == in_enc, 'input CSV not opened with the requested --in-encoding', key='C20/cli-encoding', replay=rp)
        require(opened.get(('back.csv', 'w'), {}).get('encoding') == out_enc, 'output CSV not opened with the requested --out-encoding', key='C20/cli-encoding', replay=rp)
        out = models.VFS.files.get('back.csv')
        require(out is not None and len(out.rows) == 1, 'one row expected', key='C20/cli', replay=rp)
        for c, v in exp.items():
            g = out.rows[0].get(c)
            if isinstance(v, (int, SInt)) and not isinstance(v, bool):
                require(isinstance(g, (int, SInt)) and s_eq(g, v), 'column %s changed' % c, key='C20/cli', replay=rp)
            else:
                req_eq(g, v, 'column %s changed' % c, key='C20/cli', replay=rp)
        return {'sample': rp['args'], 'replay': rp}
    return h


def cli_long(ipm_enc, noblock):
    """the command entry points with a file of several blocks' worth of records whose content is arbitrary (so that whatever the commands
    look at in the file to decide how to read it, the user's blocking option has to win)"""
    import contextlib
    import io as _io

    def h():
        core.FUEL.set(60)
        install_dateutil_stub()
        m = M()
        from . import packaged
        cfgs = packaged.bit_config()
        rows, exps, wits = [], [], []
        for i in range(3):
            row = {'MTI': '1240'}
            exp = {}
            wit = {'MTI': '1240'}
            for c, kw in (('DE2', {}), ('PDS0148', {'pdsmax': 720})):
                row[c], exp[c], w = cell(c, cfgs, '_l%d' % i, **kw)
                wit[c] = w
            if i < 3:
                assume(rlen(row['PDS0148']) >= 690)
            rows.append(row)
            exps.append(exp)
            wits.append(wit)
        cols = list(rows[0])

        def rp():
            return {'kind': 'cli_rows', 'args': {'ipm_enc': ipm_enc, 'noblock': noblock, 'cols': cols,
                                                 'rows': [{c: (w(ev) if callable(w) else w) for c, w in wit.items()} for wit in wits]}}
        core.set_fallback(rp, 'C20/concretised')
        models.VFS.reset()
        models.VFS.files['in.csv'] = models.CsvIn(cols, rows)
        with contextlib.redirect_stdout(_io.StringIO()):
            with guard('mci_csv_to_ipm.cli_run', 'C20/cli-exception', rp):
                m.mci_csv_to_ipm.cli_run(in_filename='in.csv', out_filename='out.ipm', in_encoding=None, out_encoding=ipm_enc,
                                         no1014blocking=noblock, config_file=None, debug=False)
            with guard('mci_ipm_to_csv.cli_run', 'C20/cli-exception', rp):
                rc = m.mci_ipm_to_csv.cli_run(in_filename='out.ipm', out_filename='back.csv', in_encoding=ipm_enc, out_encoding=None,
                                              no1014blocking=noblock, config_file=None, debug=False)
        require(rc is None, 'extraction of the file just written reported an error', key='C20/cli', replay=rp)
        out = models.VFS.files.get('back.csv')
        require(out is not None and len(out.rows) == len(rows), 'extracted %s rows from %d' % (len(out.rows) if out is not None else None, len(rows)),
                key='C20/cli', replay=rp)
        for i, exp in enumerate(exps):
            for c, v in exp.items():
                req_eq(out.rows[i].get(c), v, 'row %d column %s changed' % (i + 1, c), key='C20/cli', replay=rp)
        return {'sample': {'ipm_enc': ipm_enc, 'noblock': noblock, 'lens': [ev(rlen(r['PDS0148'])) for r in rows]}, 'replay': rp()}
    return h


def obligations(tier):
    q = tier == 'quick'
    obs = []
    for enc in CODECS:
        for blocked in (True, False):
            obs.append(Ob('rows1/%s/%s' % (enc, '1014' if blocked else 'vbs'), csv_roundtrip(1, enc, blocked), 600,
                          'one row, any column shape in %s, all lengths/values' % SHAPES20, _funcs))
    from . import packaged
    each = [[c] for c in packaged.output_columns() if (c.startswith('DE') and c[2:].isdigit() and c != 'DE48') or c.startswith('PDS')]
    obs.append(Ob('each-column/cp500/vbs', csv_roundtrip(1, 'cp500', False, shapes=each), 900,
                  'one row with one column, for every data element / PDS column of the configured output list (%d columns), all lengths/values' % len(each), _funcs))
    obs.append(Ob('rows2/latin_1/1014', csv_roundtrip(2, 'latin_1', True, shapes=[SHAPES20[1], SHAPES20[3]] if q else None), 1800, 'two rows, any two shapes', _funcs))
    obs.append(Ob('rows2/cp500/vbs', csv_roundtrip(2, 'cp500', False, shapes=SHAPES20[2:] if q else None), 1800, 'two rows, any two shapes', _funcs))
    obs.append(Ob('rows1-long/latin_1/1014', csv_roundtrip(1, 'latin_1', True, shapes=[['DE2', 'PDS0023', 'PDS0052', 'PDS0148']], pdsmax=992), 1200,
                  'one row with three PDS columns of 1..992 characters each (record up to ~3000 bytes over several blocks)', _funcs))
    obs.append(Ob('cli/entry-points', cli_entry_points(), 600,
                  'cli_run of both tools on a virtual file system: every combination of CSV input encoding, CSV output encoding, IPM encoding and blocking; one row', _funcs,
                  'argparse parsing and the operating system file layer'))
    for ipm_enc, noblock in ((('cp500', True), (None, True)) if q else (('cp500', True), (None, True), ('cp037', True), ('cp500', False), (None, False))):
        obs.append(Ob('cli/three-long-rows/%s/%s' % (ipm_enc or 'default', 'vbs' if noblock else '1014'), cli_long(ipm_enc, noblock), 900,
                      'cli_run of both tools, three rows with a 690..720 character PDS value each (file of more than two blocks), arbitrary content', _funcs,
                      'argparse parsing and the operating system file layer'))
    obs.append(Ob('rows1/second-configuration/latin_1/vbs', csv_roundtrip(1, 'latin_1', False, shapes=[SHAPES20[1], SHAPES20[2]], second_config=True), 600,
                  'a conversion with a configuration of its own (DE48 not a PDS carrier) in a process that converted with the packaged configuration before', _funcs))
    if not q:
        # (three rows each of either of two shapes, and three rows of shape 2 alone, do not finish inside 3000 s: three rows of shape 0 only)
        obs.append(Ob('rows3/cp037/1014/shape0', csv_roundtrip(3, 'cp037', True, shapes=[SHAPES20[0]]), 3000, 'three rows of shape 0', _funcs))
    return obs
