def _luhn(digits):
    tot = 0
    for i, ch in enumerate(reversed(digits)):
        d = int(ch)
        if i % 2 == 0:
            d = d * 2
            d = d - 9 if d > 9 else d
        tot += d
    return str((10 - tot % 10) % 10)


def replay_luhn(digits, what, pos=None, x=None, swap=None, xbase=48, prior=False):
    from cardutil import card
    if prior:
        for tail in ('7', '70'):
            try:
                card.validate_check_digit(card.add_check_digit(digits + tail))
            except AssertionError:
                pass
    import sys
    mode = '-O' if sys.flags.optimize else 'normal'
    only = ''.join(c for c in digits if c.isdigit())
    if what == 'digit':
        got = card.calculate_check_digit(digits)
        return got != _luhn(only), 'check digit of %s is %r, Luhn gives %r' % (digits, got, _luhn(only)), 'C15/digit'
    good = card.add_check_digit(digits)
    if good != digits + _luhn(only):
        return True, 'add_check_digit(%s) = %r, expected the number with its Luhn digit %s appended' % (digits, good, _luhn(only)), 'C15/append'

    def accepted(s):
        try:
            card.validate_check_digit(s)
            return True
        except AssertionError:
            return False
    if what == 'valid':
        return not accepted(good), '%s %s' % (good, 'validates' if accepted(good) else 'does not validate'), 'C15/valid'
    accepted(good)          # the valid number first, as the symbolic run does
    if pos is None or (what == 'subst' and x is None) or (what == 'transp' and swap is None):
        # a witness concretised before the position was chosen: the checks that need no position
        if card.calculate_check_digit(digits) != _luhn(only):
            return True, 'check digit of %s is %r, Luhn gives %r' % (digits, card.calculate_check_digit(digits), _luhn(only)), 'C15/digit'
        return not accepted(good), '%s %s' % (good, 'validates' if accepted(good) else 'does not validate'), 'C15/valid'
    cells = list(good)
    if what == 'subst':
        cells[pos] = chr(xbase + x)
    else:
        cells[pos], cells[swap] = cells[swap], cells[pos]
    bad = ''.join(cells)
    if bad == good:
        return False, 'no change', None
    return accepted(bad), 'python %s: invalid number %s (from %s) %s' % (mode, bad, good, 'validates' if accepted(bad) else 'is rejected'), 'C15/accepts-bad/%s' % mode
