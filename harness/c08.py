"""C08 -- decoding accepts exactly the well-framed messages and never mis-frames one"""
from vsym.runner import Ob
from .common import *
from .isomsg import *
from .decode import *

PROPERTY = 'C08'
DEBUG_LOG = ['single/latin_1/bin']      # obligations that are also explored with debug logging switched on
PYTHON_O = ['single/latin_1/bin', 'pds-carrier/DE48']      # obligations that are also explored with the modules compiled as under python -O
ASSUMPTIONS = [
    'incoming message = concrete MTI + concrete bitmap from a family (every single configured element, pairs, triples) + opaque data bytes of '
    'symbolic total length; every numeral the decoder parses is a nondeterministic int() outcome (ValueError or any integer representable in '
    'that many characters, memoised per position), so signs, spaces, underscores are covered as "any outcome int() can have"',
    'the strict reference reading (harness/decode.py: strict_read, pds_strict, icc_strict) uses the same numeral outcomes',
    'ICC TLV bytes are read through the peek table (arbitrary byte values); strptime on abstract text is a memoised nondeterministic stub',
]


def _funcs():
    i = M().iso8583
    return [i.loads, i._iso8583_to_dict, i._iso8583_to_field, i._string_to_pytype, i._get_field_length, i._pds_to_dict, i._icc_to_dict]


def framing(pick, enc, hexbm, nmax, sub=True, bit1=True, cfgs=None, builder=None, prior=False):
    cfgs_given = cfgs

    def h():
        core.FUEL.set(nmax + 10)
        iso = M().iso8583
        bits = list(pick())
        rope.ASCII_ELEMENTWISE[0] = (enc == 'ascii')
        custom = cfgs_given
        if prior:
            # the configuration object has a history: it was used for a decode in an earlier state and then edited in place
            import copy
            custom = copy.deepcopy(PRIOR_BEFORE)
            iso.loads(b'1240' + bitmap_bytes([2, 3]) + b'0512345' + b'04abcd', iso_config=custom)
            iso.loads(b'1240' + bitmap_bytes([3, 14]) + b'02xy' + b'2512', iso_config=custom)
            prior_edit(custom)
        cfgs = custom or bit_config()
        if builder is not None:
            msg, data = builder(bits, enc, hexbm)
        else:
            msg, data, src = abstract_message(bits, enc, hexbm, nmax, bit1=bit1)

        def rp():
            return {'kind': 'loads', 'args': {'data': witness_bytes(msg), 'enc': enc, 'hexbm': hexbm, 'cfg': custom, 'prior': prior}}
        core.set_fallback(rp, 'C08/concretised')
        d = None
        err = None
        try:
            d = iso.loads(msg, encoding=enc, hex_bitmap=hexbm, iso_config=custom)
        except iso.Iso8583DataError as e:
            err = e
        except core.ControlFlow:
            raise
        except Exception as e:
            # another exception type: that is C07's subject; for framing purposes the message was not accepted
            err = e
        try:
            want, subs = strict_read(cfgs, bits, data, enc, with_sub=sub)
            rej = None
        except Reject as r:
            want, subs, rej = None, None, r.why
        if d is not None:
            require(rej is None, 'decoder accepted a message that is not well framed: %s' % rej,
                    key='C08/misframed/' + (rej or '').split(':')[-1].strip().replace(' ', '-')[:24], replay=rp)
            for k, v in want.items():
                require(k in d, '%s missing from the result' % k, key='C08/value', replay=rp)
                require(values_equal(d[k], v), '%s is not the content of its own bytes' % k, key='C08/value', replay=rp)
            if sub:
                for name, items in subs.items():
                    for tag, val in items:
                        if name.startswith('PDS'):
                            key = cat('t', 'PDS', tag)
                        else:
                            key = cat('t', 'TAG', M().iso8583.binascii.b2a_hex(tag).upper().decode())
                            val = M().iso8583.binascii.b2a_hex(val).decode() if not isinstance(val, bytes) or val else ''
                        found = None
                        for k2 in d:
                            if isinstance(k2, (str, Rope)) and rope.kind_of(k2) == 't' and rope.rope_eq(k2, key):
                                found = k2
                        require(found is not None, 'sub-element %s missing' % (key,), key='C08/sub', replay=rp)
        else:
            if rej is None and isinstance(err, iso.Iso8583DataError):
                # numerals that are not plain decimal digits are a don't-care for acceptance
                require(s_not(all_numerals_plain()), 'decoder refused a well-framed message: %s' % (err.args[:1],), key='C08/too-strict', replay=rp)
        return {'sample': {'bits': bits, 'len': ev(rlen(data)), 'accepted': d is not None, 'strict': rej or 'accept'}, 'replay': rp()}
    return h


from .c08_replay import PRIOR_BEFORE, prior_edit      # (kept with the plain-Python replay so that it does not import the engine)


MB_TEXTS = ['\u00e9', 'a\u00e91', '\u20acuro', '\u65e5\u672c\u8a9e', 'x\U0001f600y', 'caf\u00e9 12 \u00f1', 'plain']


def multibyte(bits, enc, hexbm):
    """variable elements whose content has multi-byte characters (concrete, from a family) under a declared length that is symbolic:
    the declared number counts BYTES, so the one well-framed reading has it equal to the encoded length"""
    cfgs = bit_config()
    parts = []
    for i, b in enumerate(bits):
        body = choose('text%d' % i, MB_TEXTS).encode(enc)
        n = sym_int('declared%d' % i, 0, len(body) + 2)
        parts += [mk('t', [Num(n, flen(cfgs[str(b)]))]).encode('ascii'), body]
    data = cat('b', *parts)
    bm = bitmap_bytes(list(bits))
    if hexbm:
        bm = binascii.hexlify(bm)
    return cat('b', '1240'.encode(enc), bm, data), data


def short_header(enc, hexbm):
    """anything shorter than MTI + complete bitmap is not a message: decoding must not return a result"""
    def h():
        core.FUEL.set(40)
        models.ABSTRACT_BITMAPS[0] = True
        iso = M().iso8583
        hl = 36 if hexbm else 20
        n = sym_int('n', 0, hl - 1)
        src = Source('msg', 'b', n)
        msg = src.rope() if not (isinstance(n, int) and n == 0) else b''

        def rp():
            return {'kind': 'loads', 'args': {'data': witness_bytes(msg), 'enc': enc, 'hexbm': hexbm}}
        core.set_fallback(rp, 'C08/concretised')
        try:
            d = iso.loads(msg, encoding=enc, hex_bitmap=hexbm)
        except core.ControlFlow:
            raise
        except Exception:
            return {'sample': {'n': ev(n), 'accepted': False}, 'replay': rp()}
        fail('decoder accepted %s bytes, less than MTI and bitmap' % ev(n), key='C08/misframed/short-header', replay=rp)
    return h


# a caller-supplied configuration whose dictionary keys are not in ascending numeric order (an entry added later; JSON with sorted string keys)
UNORDERED = {k: v for k, v in [
    ('3', {'field_type': 'FIXED', 'field_length': 6}), ('14', {'field_type': 'FIXED', 'field_length': 4}),
    ('38', {'field_type': 'FIXED', 'field_length': 6}), ('100', {'field_type': 'LLVAR', 'field_length': 0}),
    ('2', {'field_type': 'LLVAR', 'field_length': 0}), ('7', {'field_type': 'FIXED', 'field_length': 10}),
    ('4', {'field_type': 'FIXED', 'field_length': 12, 'field_python_type': 'int'})]}


def obligations(tier):
    q = tier == 'quick'
    singles, pairs, triples = bit_families(q)
    nmax = 24 if q else 40
    obs = []
    for enc, hexbm in ((('latin_1', False), ('cp500', True)) if q else (('latin_1', False), ('cp500', True), ('cp037', False))):
        tag = '%s/%s' % (enc, 'hex' if hexbm else 'bin')
        plain = [b for b in singles if bit_config()[str(b[0])].get('field_processor') not in ('PDS', 'ICC')]
        obs.append(Ob('single/' + tag, framing(lambda plain=plain: choose('bits', plain), enc, hexbm, nmax), 600,
                      'each configured non-PDS/ICC element alone, data length 0..%d' % nmax, _funcs, 'bitmaps outside the family; longer data'))
        obs.append(Ob('pairs/' + tag, framing(lambda: choose('bits', pairs), enc, hexbm, nmax, sub=False), 900,
                      '%d element pairs, data length 0..%d (sub-element walkers not compared here)' % (len(pairs), nmax), _funcs))
    for enc, hexbm in (('latin_1', False), ('cp500', True)):
        obs.append(Ob('short-header/%s/%s' % (enc, 'hex' if hexbm else 'bin'), short_header(enc, hexbm), 300,
                      'every input of 0..%d bytes (shorter than MTI + bitmap), arbitrary content' % ((36 if hexbm else 20) - 1), _funcs))
    upairs = [[3, 7], [7, 14], [2, 3], [2, 100], [4, 38], [3, 7, 14]]
    obs.append(Ob('multibyte/utf-8', framing(lambda: choose('bits', [[63], [72], [100], [43]]), 'utf-8', False, 40, sub=False, builder=multibyte), 600,
                  'multi-byte codec: variable elements with concrete non-ASCII content from a family, every declared length 0..bytes+2 (lengths count bytes)', _funcs))
    obs.append(Ob('edited-config/latin_1', framing(lambda: choose('bits', [[2, 3], [3, 14], [2, 14, 41], [3, 41]]), 'latin_1', False, 22, sub=False, prior=True), 600,
                  'a configuration object that was used for two decodes, then edited in place (entry replaced / changed / deleted / added) and used again: '
                  'the reading follows the configuration as it is at the time of the call', _funcs))
    obs.append(Ob('unordered-config/latin_1', framing(lambda: choose('bits', upairs), 'latin_1', False, 22, sub=False, cfgs=UNORDERED), 600,
                  'caller-supplied configuration whose keys are not in numeric order: element groups %s, data 0..22' % upairs, _funcs))
    obs.append(Ob('bit1-clear-single/latin_1', framing(lambda: choose('bits', [[9], [33], [41], [49], [73], [24], [2]]), 'latin_1', False, 14, sub=False, bit1=False), 600,
                  'one element, secondary-bitmap flag clear - among them elements whose bit is the first of a bitmap byte (9, 33, 41, 49, 73)', _funcs))
    obs.append(Ob('bit1-clear/latin_1', framing(lambda: choose('bits', [[2, 71], [63, 71], [93, 94], [3, 127], [65 - 2, 66 + 5]]), 'latin_1', False, 20, sub=False, bit1=False), 600,
                  'incoming bitmaps with bit 1 clear and elements above 64 flagged (the bitmap is always 16 bytes): framing must not depend on bit 1', _funcs))
    obs.append(Ob('triples/latin_1', framing(lambda: choose('bits', triples), 'latin_1', False, 16 if q else 26, sub=False), 900,
                  'element triples %s, data 0..%d' % (triples, 16 if q else 26), _funcs))
    obs.append(Ob('pairs-with-pds/latin_1', framing(lambda: choose('bits', [[3, 48], [48, 49], [54, 62]]), 'latin_1', False, 13 if q else 18), 900,
                  'pairs that include a PDS carrier, data 0..%d' % (13 if q else 18), _funcs))
    obs.append(Ob('two-pds-carriers/latin_1', framing(lambda: choose('bits', [[48, 62], [62, 123]]), 'latin_1', False, 24 if q else 30), 900,
                  'two PDS carriers in one message, data 0..%d: every carrier is tiled by its own sub-elements' % (24 if q else 30), _funcs))
    obs.append(Ob('pairs-with-icc/ascii', framing(lambda: choose('bits', [[2, 55], [32, 55]]), 'ascii', False, 9 if q else 11), 900,
                  'a text element followed by binary ICC data under the strict ascii codec: the text element is decoded from its own bytes only', _funcs))
    obs.append(Ob('pairs-with-icc/latin_1', framing(lambda: choose('bits', [[55, 63], [2, 55]]), 'latin_1', False, 8 if q else 10), 900,
                  'pairs that include the ICC element, data 0..%d' % (8 if q else 10), _funcs))
    for c in PDS_CARRIERS if not q else (48, 125):
        obs.append(Ob('pds-carrier/DE%d' % c, framing(lambda c=c: [c], 'latin_1', False, 3 + (21 if q else 30)), 900,
                      'PDS carrier DE%d alone, data 0..%d: framing of the sub-elements inside the carrier' % (c, 3 + (21 if q else 30)), _funcs))
    obs.append(Ob('single-long/latin_1', framing(lambda: choose('bits', [[54], [72], [111], [127], [63]]), 'latin_1', False, 1006, sub=False), 900,
                  'each plain LLLVAR element alone, data length 0..1006 (declared lengths up to 999)', _funcs))
    obs.append(Ob('icc/DE55', framing(lambda: [55], 'latin_1', False, 3 + (5 if q else 7)), 1200,
                  'ICC field alone, data 0..%d, all byte values of tags/lengths (peek table)' % (3 + (5 if q else 7)), _funcs))
    return obs
