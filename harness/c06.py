"""C06 -- IPM file round trip: messages written are the messages read back; instances are isolated"""
from vsym.runner import Ob
from .common import *
from .isomsg import *
from .ipmfile import *
from .c01 import GENERIC, GENERIC_DEC

PROPERTY = 'C06'
DEBUG_LOG = ['rt1/cp500/1014', 'rt1/latin_1/vbs']      # obligations that are also explored with debug logging switched on
PYTHON_O = ['rt1/latin_1/vbs', 'rt1/cp500/1014']      # obligations that are also explored with the modules compiled as under python -O
ASSUMPTIONS = [
    'messages come from the C01 families (shapes %s), lengths / numeric values / content symbolic; 1..3 records per file' % SHAPES,
    '"hundreds of records / many blocks" is not re-run here: it follows from the per-step arguments of C03-C05 (any record list, any write and read sequence)',
    'isolation: two instances on different RopeFiles driven by every schedule of bounded length',
]


def _funcs():
    m = M().mciipm
    i = M().iso8583
    return [m.IpmWriter.write, m.IpmWriter.__init__, m.VbsWriter.write, m.VbsWriter.close, m.IpmReader.__next__, m.IpmReader.__init__,
            m.VbsReader.__next__, m.Block1014.write, m.Unblock1014.read, i.dumps, i.loads]


PACKAGED_MAX = 6000


def roundtrip(nrec, enc, blocked, cfgs=None, shapes=None, maxvar1=-1, maxrec=False, many=None, closes=1, raise_max=None):
    def h():
        core.FUEL.set(30)
        m = M().mciipm
        M().config.config['MAX_VBS_RECORD_LENGTH'] = PACKAGED_MAX           # (an obligation that raises it must not leak into the next path)
        f = RopeFile()
        recs = []
        for i in range(nrec):
            if cfgs is None:
                bits = choose('shape%d' % i, shapes or SHAPES)
            else:
                bits = sorted(int(k) for k in cfgs)
            msg, elems = build_message(bits, cfgs=cfgs, tag='_r%d' % i, maxvar=(400 if nrec > 1 else None) if maxvar1 == -1 else 999)
            recs.append((msg, elems))

        def rp():
            return {'kind': 'roundtrip', 'args': {'msgs': [msg_witness(mm, ee, ev) for mm, ee in recs], 'enc': enc, 'blocked': blocked, 'cfg': cfgs or 'packaged',
                                                 'many': many, 'closes': closes, 'raise_max': raise_max}}
        core.set_fallback(rp, 'C06/concretised')
        if raise_max:
            # the application raises the configured maximum record length at run time (after the library was imported)
            M().config.config['MAX_VBS_RECORD_LENGTH'] = raise_max
        if maxrec:
            # messages up to the configured maximum record length (larger ones cannot be read back by design)
            for msg, _ in recs:
                assume(rlen(M().iso8583.dumps(dict(msg), encoding=enc, iso_config=cfgs)) <= 6000)
        with guard('IpmWriter', 'C06/write-exception', rp):
            w = m.IpmWriter(f, encoding=enc, blocked=blocked, iso_config=cfgs)
            if many == 'list':
                w.write_many([dict(msg) for msg, _ in recs])
            elif many == 'generator':
                w.write_many(dict(msg) for msg, _ in recs)
            elif many == 'batch-then-write':
                w.write_many([dict(recs[0][0])])          # a batch, then single records on the same writer
                for msg, _ in recs[1:]:
                    w.write(dict(msg))
            else:
                for msg, _ in recs:
                    w.write(dict(msg))
            for _ in range(closes):
                w.close()
        got = []
        with guard('IpmReader', 'C06/read-exception', rp):
            rd = m.IpmReader(f, encoding=enc, blocked=blocked, iso_config=cfgs)
            if nrec >= 2:
                got.append(next(rd))                # file header taken with next(), the rest in a for loop
            for d in rd:
                core.FUEL.set(30)
                got.append(d)
                if len(got) > nrec:
                    break
        require(len(got) == nrec, 'read %d messages, wrote %d' % (len(got), nrec), key='C06/count', replay=rp)
        for i, (d, (msg, elems)) in enumerate(zip(got, recs)):
            compare_record(d, msg, elems, 'C06/value', rp, 'record %d: ' % (i + 1))
        return {'sample': {'shapes': [sorted(k for k in mm if k != 'MTI') for mm, _ in recs], 'enc': enc, 'blocked': blocked,
                           'size': ev(f.size())}, 'replay': rp()}
    return h


def writers_isolated(steps, blocked):
    def h():
        core.FUEL.set(20)
        m = M().mciipm
        fa, fb = RopeFile(), RopeFile()
        wa = m.IpmWriter(fa, encoding='latin_1', blocked=blocked)
        wb = m.IpmWriter(fb, encoding='cp500', blocked=blocked)
        sched = [choose('who%d' % i, [0, 1]) for i in range(steps)]
        msgs = {0: [], 1: []}
        for i, who in enumerate(sched):
            msg, elems = build_message([2, 4] if who == 0 else [3, 63], tag='_s%d' % i, maxvar=300)
            msgs[who].append(msg)
            (wa if who == 0 else wb).write(dict(msg))
        wa.close()
        wb.close()
        rp = {'kind': 'writers', 'args': {'sched': sched, 'blocked': blocked}}
        core.set_fallback(rp, 'C06/concretised')
        # each file must equal what the same messages give in isolation
        for who, (f, enc) in enumerate(((fa, 'latin_1'), (fb, 'cp500'))):
            core.FUEL.set(20)
            g = RopeFile()
            w = m.IpmWriter(g, encoding=enc, blocked=blocked)
            for msg in msgs[who]:
                w.write(dict(msg))
            w.close()
            req_eq(f.getvalue(), g.getvalue(), 'writer %d produced a different file when interleaved with another writer' % who, key='C06/isolation', replay=rp)
        return {'sample': {'schedule': sched, 'sizes': [ev(fa.size()), ev(fb.size())]}, 'replay': rp}
    return h


def readers_isolated(steps, blocked):
    def h():
        core.FUEL.set(20)
        m = M().mciipm
        files = []
        nrec = (2, 3)
        for who, enc in enumerate(('latin_1', 'cp500')):
            f = RopeFile()
            w = m.IpmWriter(f, encoding=enc, blocked=blocked)
            for i in range(nrec[who]):
                msg, _ = build_message([2] if who == 0 else [3, 72], tag='_f%d_%d' % (who, i), maxvar=300)
                w.write(dict(msg))
            w.close()
            files.append(f.getvalue())
        readers = [m.IpmReader(RopeFile(files[0]), encoding='latin_1', blocked=blocked),
                   m.IpmReader(RopeFile(files[1]), encoding='cp500', blocked=blocked)]
        sched = [choose('who%d' % i, [0, 1]) for i in range(steps)]
        rp = {'kind': 'readers', 'args': {'sched': sched, 'blocked': blocked}}
        core.set_fallback(rp, 'C06/concretised')
        count = [0, 0]
        done = [False, False]
        for who in sched:
            core.FUEL.set(20)
            r = readers[who]
            if done[who]:
                continue            # an exhausted iterator is not called again
            try:
                next(r)
                count[who] += 1
            except StopIteration:
                done[who] = True
            for x in (0, 1):
                want = 1 + count[x]
                require(readers[x].record_number == want, 'reader %d record_number is %s after %d of its own reads' % (x, readers[x].record_number, count[x]),
                        key='C06/isolation', replay=rp)
            require(count[who] <= nrec[who], 'reader delivered more records than its file holds', key='C06/isolation', replay=rp)
        for x in (0, 1):
            if count[x]:
                lr = readers[x].last_record
                require(lr is not None, 'last_record missing', key='C06/isolation', replay=rp)
        return {'sample': {'schedule': sched, 'delivered': count}, 'replay': rp}
    return h


def configs_isolated(blocked):
    """two writers/readers with different caller-supplied configurations (same element numbers, different processors) used in one process"""
    import copy

    def h():
        core.FUEL.set(20)
        m = M().mciipm
        cfgA = None                                   # packaged: DE48 is the first PDS carrier
        cfgB = copy.deepcopy(bit_config())
        del cfgB['48']['field_processor']            # DE48 is plain text here, PDS sub-elements go to DE62
        order = choose('order', ['A-then-B', 'B-then-A'])
        nA = sym_int('a_len', 0, 200)
        nB = sym_int('b_len', 0, 200)
        nT = sym_int('text_len', 1, 300)
        vA = Source('pdsA', 't', nA).rope() if True else ''
        vB = Source('pdsB', 't', nB).rope()
        text = Source('de48text', 't', nT).rope()
        msgA = {'MTI': '1240', 'DE2': '4444555566667777', 'PDS0023': vA}
        msgB = {'MTI': '1240', 'DE48': text, 'PDS0023': vB}
        rp = {'kind': 'configs', 'args': {'order': order, 'blocked': blocked, 'lens': [ev(nA), ev(nB), ev(nT)]}}
        core.set_fallback(rp, 'C06/concretised')
        fa, fb = RopeFile(), RopeFile()
        wa = m.IpmWriter(fa, blocked=blocked, iso_config=cfgA)
        wb = m.IpmWriter(fb, blocked=blocked, iso_config=cfgB)
        with guard('writers with two configurations', 'C06/config-isolation', rp):
            for who in (order.split('-then-')):
                if who == 'A':
                    wa.write(dict(msgA))
                else:
                    wb.write(dict(msgB))
            wa.close()
            wb.close()
            da = list(m.IpmReader(fa, blocked=blocked, iso_config=cfgA))
            core.FUEL.set(20)
            db = list(m.IpmReader(fb, blocked=blocked, iso_config=cfgB))
        require(len(da) == 1 and len(db) == 1, 'record counts', key='C06/config-isolation', replay=rp)
        req_eq(da[0].get('PDS0023'), vA, 'packaged configuration: PDS0023 changed', key='C06/config-isolation', replay=rp)
        req_eq(db[0].get('DE48'), text, 'custom configuration: DE48 text was replaced', key='C06/config-isolation', replay=rp)
        req_eq(db[0].get('PDS0023'), vB, 'custom configuration: PDS0023 changed', key='C06/config-isolation', replay=rp)
        return {'sample': rp['args'], 'replay': rp}
    return h


def obligations(tier):
    q = tier == 'quick'
    obs = []
    for enc in CODECS:
        for blocked in (False, True):
            tag = '%s/%s' % (enc, '1014' if blocked else 'vbs')
            obs.append(Ob('rt1/' + tag, roundtrip(1, enc, blocked), 300, 'one message of any shape in the family, all lengths/values', _funcs))
            if not q or enc != 'cp037':
                obs.append(Ob('rt2/' + tag, roundtrip(2, enc, blocked, shapes=SHAPES[:4] if q else SHAPES), 900,
                              'two messages, any two shapes, variable lengths up to 400', _funcs))
    obs.append(Ob('rt1/custom-config/cp500/1014', roundtrip(1, 'cp500', True, cfgs=GENERIC['g-var']), 300, 'caller-supplied configuration g-var', _funcs))
    obs.append(Ob('rt2/custom-config-decimal/cp500/1014', roundtrip(2, 'cp500', True, cfgs=GENERIC_DEC), 300, 'caller-supplied configuration with decimal fields (values from a concrete family incl. zero)', _funcs))
    obs.append(Ob('rt1/pds-entry-and-raw-carrier/latin_1/1014', roundtrip(1, 'latin_1', True, shapes=[[2, 'PDS0023', 123], [3, 'PDS0158', 62]]), 300,
                  'a message that supplies a PDSxxxx entry (packed into DE48) and a later carrier element as a ready-made string', _funcs))
    for blocked in (True, False):
        obs.append(Ob('rt1/closed-twice/cp500/%s' % ('1014' if blocked else 'vbs'), roundtrip(1, 'cp500', blocked, closes=2), 300,
                      'one message, the writer closed twice (as an explicit close() inside a with block does)', _funcs))
    obs.append(Ob('rt2/custom-config/write_many-list/cp037/1014', roundtrip(2, 'cp037', True, cfgs=GENERIC['g-typed'], many='list'), 300,
                  'caller-supplied configuration g-typed, the records handed over with write_many(list)', _funcs))
    for blocked in (False, True):
        obs.append(Ob('rt2/write_many-then-write/cp500/%s' % ('1014' if blocked else 'vbs'), roundtrip(2, 'cp500', blocked, shapes=SHAPES[:3], many='batch-then-write'), 600,
                      'a batch handed to write_many followed by a single write on the same writer', _funcs))
    obs.append(Ob('rt2/custom-config/write_many-generator/latin_1/vbs', roundtrip(2, 'latin_1', False, cfgs=GENERIC['g-var'], many='generator'), 300,
                  'caller-supplied configuration g-var, the records handed over with write_many(generator)', _funcs))
    obs.append(Ob('rt2/custom-config/latin_1/vbs', roundtrip(2, 'latin_1', False, cfgs=GENERIC['g-typed']), 300, 'caller-supplied configuration g-typed', _funcs))
    if not q:
        obs.append(Ob('rt3/cp500/1014', roundtrip(3, 'cp500', True, shapes=SHAPES[:3]), 1800, 'three messages', _funcs))
    LONG = [[54, 72, 111, 127], [2, 72, 'PDS0023', 'PDS0052'], [3, 'PDS0001', 'PDS0002', 'PDS0158']]
    for enc, blocked in (('latin_1', True), ('cp500', True), ('cp037', False)):
        obs.append(Ob('rt1-long/%s/%s' % (enc, '1014' if blocked else 'vbs'), roundtrip(1, enc, blocked, shapes=LONG, maxvar1=None), 900,
                      'one long message (shapes %s, every length up to 999 / 992 each: records up to ~4000 bytes over several blocks)' % LONG, _funcs))
    obs.append(Ob('rt2-long/cp500/1014', roundtrip(2, 'cp500', True, shapes=[[72, 127]], maxvar1=None), 900,
                  'two long messages (DE72 and DE127 of every length 1..999 each): either may end exactly on a block boundary and the next one crosses the following one', _funcs))
    MAXSHAPE = [[54, 63, 72, 111, 127, 'PDS0001']]
    obs.append(Ob('rt1-raised-max/cp500/vbs', roundtrip(1, 'cp500', False, shapes=[[54, 63, 72, 111, 127, 'PDS0001', 'PDS0002']], maxvar1=None, raise_max=9000), 1200,
                  'MAX_VBS_RECORD_LENGTH raised to 9000 at run time: one message of up to ~7000 bytes (five LLLVAR elements and two PDS entries of every length)', _funcs))
    for enc, blocked in ((('cp500', False),) if q else (('cp500', False), ('latin_1', True))):
        obs.append(Ob('rt1-max/%s/%s' % (enc, '1014' if blocked else 'vbs'), roundtrip(1, enc, blocked, shapes=MAXSHAPE, maxvar1=None, maxrec=True), 1200,
                      'one message of up to exactly the maximum record length (6000 bytes): five LLLVAR elements and a PDS entry of every length', _funcs))
    for blocked in (False, True):
        obs.append(Ob('isolation/configs/%s' % ('1014' if blocked else 'vbs'), configs_isolated(blocked), 300,
                      'packaged and caller-supplied configuration (same element numbers, DE48 plain text) used in one process, both orders', _funcs))
        obs.append(Ob('isolation/writers/%s' % ('1014' if blocked else 'vbs'), writers_isolated(3 if q else 5, blocked), 600,
                      'two writers, every schedule of %d writes' % (3 if q else 5), _funcs))
        obs.append(Ob('isolation/readers/%s' % ('1014' if blocked else 'vbs'), readers_isolated(4 if q else 6, blocked), 600,
                      'two readers, every schedule of %d reads' % (4 if q else 6), _funcs))
    return obs
