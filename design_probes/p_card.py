from cardutil import card

def ref_luhn(s: str) -> str:
    total = 0
    dbl = True
    i = len(s) - 1
    while i >= 0:
        d = ord(s[i]) - 48
        if dbl:
            d = d * 2
            if d > 9:
                d -= 9
        total += d
        dbl = not dbl
        i -= 1
    return str((10 - total % 10) % 10)

def _check_digit_matches_ref(s: str) -> bool:
    """
    pre: len(s) <= 5
    pre: all(c in '0123456789' for c in s)
    post: _
    """
    return card.calculate_check_digit(s) == ref_luhn(s)

def _single_sub_rejected(s: str, i: int, c: str) -> bool:
    """
    pre: 1 <= len(s) <= 4
    pre: all(ch in '0123456789' for ch in s)
    pre: len(c) == 1 and c in '0123456789'
    pre: 0 <= i <= len(s)
    post: _
    """
    good = card.add_check_digit(s)
    if good[i] == c:
        return True
    bad = good[:i] + c + good[i+1:]
    try:
        card.validate_check_digit(bad)
    except AssertionError:
        return True
    return False

def _mask_ok(s: str, m: str) -> bool:
    """
    pre: 10 <= len(s) <= 14
    pre: len(m) == 1
    post: _
    """
    r = card.mask(s, m)
    return len(r) == len(s) and r[:6] == s[:6] and r[-4:] == s[-4:] and all(ch == m for ch in r[6:-4])
