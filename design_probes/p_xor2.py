import z3
from crosshair.libimpl.builtinslib import SymbolicInt
from crosshair.tracers import NoTracing
from p_xor import hexval

def sxor(a, b, bits=64):
    with NoTracing():
        if not isinstance(a, SymbolicInt) and not isinstance(b, SymbolicInt):
            return a ^ b
        av = a.var if isinstance(a, SymbolicInt) else z3.IntVal(a)
        bv = b.var if isinstance(b, SymbolicInt) else z3.IntVal(b)
        return SymbolicInt(z3.BV2Int(z3.Int2BV(av, bits) ^ z3.Int2BV(bv, bits)))

def _xor_involution(a: int, b: int) -> bool:
    """
    pre: 0 <= a < 2**64
    pre: 0 <= b < 2**64
    post: _
    """
    return sxor(sxor(a, b), b) == a

def _nibbles(pin: str, pan: str) -> bool:
    """
    pre: len(pin) == 6
    pre: all(c in '0123456789' for c in pin)
    pre: len(pan) == 12
    pre: all(c in '0123456789' for c in pan)
    post: _
    """
    p1 = hexval('06' + pin + 'ffffffff')
    p2 = hexval('0000' + pan)
    blk = sxor(p1, p2)
    return (blk // 2**56) == 6 and sxor(blk, p2) == p1 and ((blk // 2**48) % 256) == (ord(pin[0]) - 48) * 16 + (ord(pin[1]) - 48)

def digits(v, k):
    """k-digit decimal string of symbolic v, no forks"""
    s = ''
    for i in range(k):
        s = chr(48 + (v // 10 ** (k - 1 - i)) % 10) + s if False else s + chr(48 + (v // 10 ** (k - 1 - i)) % 10)
    return s

def _nibbles2(pinv: int, panv: int) -> bool:
    """
    pre: 0 <= pinv < 10**6
    pre: 0 <= panv < 10**12
    post: _
    """
    pin = digits(pinv, 6)
    pan = digits(panv, 12)
    p1 = hexval('06' + pin + 'ffffffff')
    p2 = hexval('0000' + pan)
    blk = sxor(p1, p2)
    return (blk // 2**56) == 6 and sxor(blk, p2) == p1 and ((blk // 2**48) % 256) == (ord(pin[0]) - 48) * 16 + (ord(pin[1]) - 48)
