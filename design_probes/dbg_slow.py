import sys; sys.path.insert(0,'.')
import rope; rope.DEBUG_SLOW = True
import chdrive
chdrive.run('p_rt2', '_rt_packaged', 60)
