"""Prototype: content-abstract text/bytes with symbolic lengths (runs under CrossHair)."""
import builtins


DEBUG_SLOW = False


class Unsupported(Exception):
    pass


def conc(x):
    """cheap syntactic concretisation: z3.simplify cancels equal symbolic sums without a solver query"""
    try:
        from crosshair.tracers import NoTracing
        from crosshair.libimpl.builtinslib import SymbolicInt
        import z3
    except ImportError:
        return x
    with NoTracing():
        if isinstance(x, SymbolicInt):
            s = z3.simplify(x.var)
            if z3.is_int_value(s):
                return s.as_long()
    return x


class Piece:
    __slots__ = ()


class Lit(Piece):
    __slots__ = ('v',)
    def __init__(self, v): self.v = v
    def length(self): return len(self.v)
    def cut(self, a, b): return Lit(self.v[a:b])
    def same(self, o): return isinstance(o, Lit) and self.v == o.v
    def __repr__(self): return 'Lit(%r)' % (self.v,)


class Opq(Piece):
    """bytes/chars [lo,hi) of opaque source `src`; enc = codec the text was encoded with (None for text / raw)"""
    __slots__ = ('src', 'lo', 'hi', 'enc')
    def __init__(self, src, lo, hi, enc=None): self.src = src; self.lo = lo; self.hi = hi; self.enc = enc
    def length(self): return self.hi - self.lo
    def cut(self, a, b): return Opq(self.src, self.lo + a, self.lo + b, self.enc)
    def same(self, o): return isinstance(o, Opq) and self.src == o.src and self.enc == o.enc and self.lo == o.lo and self.hi == o.hi
    def recode(self, enc): return Opq(self.src, self.lo, self.hi, enc)
    def __repr__(self): return 'Opq(%s,%r,%r%s)' % (self.src, self.lo, self.hi, '' if self.enc is None else ',' + self.enc)


class Num(Piece):
    """decimal rendering of n (0 <= n < 10**width), zero padded to width; only whole-piece use"""
    __slots__ = ('n', 'width', 'enc')
    def __init__(self, n, width, enc=None): self.n = n; self.width = width; self.enc = enc
    def recode(self, enc): return Num(self.n, self.width, enc)
    def length(self): return self.width
    def cut(self, a, b):
        if a == 0 and b == self.width:
            return self
        raise Unsupported('partial numeral')
    def same(self, o): return isinstance(o, Num) and self.width == o.width and self.enc == o.enc and self.n == o.n
    def __repr__(self): return 'Num(%r,%r)' % (self.n, self.width)


class Fill(Piece):
    __slots__ = ('ch', 'count')
    enc = None
    def __init__(self, ch, count): self.ch = ch; self.count = count
    def recode(self, enc, to_bytes=None):
        return Fill(self.ch.encode(enc) if isinstance(self.ch, str) else self.ch.decode(enc), self.count)
    def length(self): return self.count
    def cut(self, a, b): return Fill(self.ch, b - a)
    def same(self, o): return isinstance(o, Fill) and self.ch == o.ch and self.count == o.count
    def __repr__(self): return 'Fill(%r,%r)' % (self.ch, self.count)


def eq0(x, y):
    d = conc(x - y)
    if not is_symbolic(d):
        return d == 0
    return x == y


def _norm(kind, enc, pieces):
    """drop empty pieces, merge literals; collapse to real str/bytes if fully concrete"""
    out = []
    for p in pieces:
        if isinstance(p, Lit):
            if len(p.v) == 0:
                continue
            if out and isinstance(out[-1], Lit):
                out[-1] = Lit(out[-1].v + p.v)
                continue
        if isinstance(p, Opq) and out and isinstance(out[-1], Opq) and out[-1].src == p.src and out[-1].enc == p.enc and eq0(out[-1].hi, p.lo):
            out[-1] = Opq(p.src, out[-1].lo, p.hi, p.enc)
            continue
        if isinstance(p, Fill) and out and isinstance(out[-1], Fill) and out[-1].ch == p.ch:
            out[-1] = Fill(p.ch, out[-1].count + p.count)
            continue
        if not isinstance(p, Lit) and p.length() == 0:
            continue
        out.append(p)
    if not out:
        return '' if kind == 't' else b''
    if len(out) == 1 and isinstance(out[0], Lit):
        return out[0].v
    return mk(kind, enc, out)


class Rope:
    def __init__(self, kind, enc, pieces):
        self.kind = kind      # 't' text, 'b' bytes
        self.enc = enc        # codec the bytes were produced with (None for raw)
        self.pieces = pieces

    # ---- construction helpers
    @staticmethod
    def of(x, kind):
        if isinstance(x, Rope):
            return x
        return mk(kind, None, [Lit(x)] if len(x) else [])

    def bounds(self):
        b = getattr(self, '_bounds', None)
        if b is None:
            b = [0]
            for p in self.pieces:
                b.append(conc(b[-1] + p.length()))
            self._bounds = b
        return b

    def __len__(self):
        return self.bounds()[-1]

    def __bool__(self):
        if len(self) > 0:
            return True
        return False

    def __add__(self, other):
        if isinstance(other, Rope):
            if other.kind != self.kind: raise TypeError('mix of text and bytes')
            enc = self.enc if self.enc == other.enc else None
            return _norm(self.kind, enc, self.pieces + other.pieces)
        return _norm(self.kind, self.enc, self.pieces + [Lit(other)])

    def __radd__(self, other):
        return _norm(self.kind, self.enc, [Lit(other)] + self.pieces)

    def __getitem__(self, sl):
        if not isinstance(sl, slice) or sl.step is not None:
            raise Unsupported('only plain slices')
        n = conc(len(self))
        a = 0 if sl.start is None else conc(sl.start)
        b = n if sl.stop is None else conc(sl.stop)
        bd = self.bounds()
        def find(x):
            for i in range(len(bd)):
                d = conc(x - bd[i])
                if not is_symbolic(d) and d == 0:
                    return i
            return None
        ia = find(a); ib = find(b)
        if ia is not None and ib is not None:
            return _norm(self.kind, self.enc, self.pieces[ia:ib] if ib >= ia else [])
        if DEBUG_SLOW:
            from crosshair.tracers import NoTracing
            with NoTracing():
                import sys
                def sx(v):
                    return str(v.var) if hasattr(v, 'var') else repr(v)
                print('SLOW', sx(a), '|', sx(b), '|', [sx(x) for x in bd], file=sys.stderr)
        if a < 0:
            a = n + a
            if a < 0: a = 0
        if b < 0:
            b = n + b
            if b < 0: b = 0
        if a > n: a = n
        if b > n: b = n
        if b < a: b = a
        out = []
        cum = 0
        for p in self.pieces:
            L = conc(p.length())
            lo = conc(a - cum)
            hi = conc(b - cum)
            if hi <= 0:
                break
            if lo < L:
                if lo < 0: lo = 0
                if hi > L: hi = L
                if lo == 0 and hi == L:
                    out.append(p)
                else:
                    out.append(p.cut(lo, hi))
            cum = conc(cum + L)
        return _norm(self.kind, self.enc, out)

    def encode(self, encoding):
        if self.kind != 't': raise AttributeError('encode')
        ps = []
        for p in self.pieces:
            ps.append(Lit(p.v.encode(encoding)) if isinstance(p, Lit) else p.recode(encoding))
        return mk('b', None, ps)

    def decode(self, encoding):
        if self.kind != 'b': raise AttributeError('decode')
        ps = []
        for p in self.pieces:
            if isinstance(p, Lit):
                ps.append(Lit(p.v.decode(encoding)))
            elif isinstance(p, Fill):
                ps.append(p.recode(encoding))
            elif p.enc == encoding or (p.enc is None and isinstance(p, Opq)):
                # raw opaque bytes decode to "text of those bytes under <encoding>": remember it in the source
                ps.append(p.recode(None) if p.enc == encoding else Opq(('dec', encoding, p.src), p.lo, p.hi))
            else:
                ps.append(Opq(('garbled', p.enc, encoding, repr(p)), 0, p.length()))
        return mk('t', None, ps)

    def __eq__(self, other):
        if not isinstance(other, Rope):
            other = Rope.of(other, self.kind) if isinstance(other, (str, bytes)) else None
            if other is None: return False
        if len(self.pieces) != len(other.pieces):
            # different segmentation: equal only if both empty... conservative
            if len(self) != len(other): return False
            raise Unsupported('eq of differently segmented ropes')
        for p, q in zip(self.pieces, other.pieces):
            if not p.same(q):
                if p.length() != q.length(): return False
                if isinstance(p, Num) and isinstance(q, Num): return False
                raise Unsupported('eq undecidable')
        return True

    def __hash__(self):
        return 7

    def __repr__(self):
        return 'Rope(%s,%s,%r)' % (self.kind, self.enc, self.pieces)


class TRope(Rope):
    pass


class BRope(Rope):
    pass


def mk(kind, enc, pieces):
    return (TRope if kind == 't' else BRope)(kind, enc, pieces)


# ---------- shadowed builtins for the loaded cardutil modules
import symbuiltins


def sh_int(val=0, base=10):
    if isinstance(val, Rope):
        if len(val.pieces) == 1 and isinstance(val.pieces[0], Num):
            return val.pieces[0].n
        raise Unsupported('int() of non-numeral rope %r' % (val,))
    return symbuiltins.py_int(val, base)


def is_symbolic(x):
    try:
        from crosshair.tracers import NoTracing
        from crosshair.util import CrossHairValue
        with NoTracing():
            return builtins.isinstance(x, CrossHairValue)
    except ImportError:
        return False


def sh_format(val, spec=''):
    # int zero-pad:  '0N' / '0Nd'
    if isinstance(val, Rope) or isinstance(val, str):
        if spec == '':
            return val
        if spec[0] == '<':
            w = builtins.int(spec[1:])
            n = len(val)
            if n >= w:
                return val
            return Rope.of(val, 't') + mk('t', None, [Fill(' ', w - n)])
        raise Unsupported('format spec %r' % spec)
    if spec == '' and is_symbolic(val):
        return mk('t', None, [Opq(('decimal-of', 0), 0, 1)])      # lazy: never realise ints for messages
    if isinstance(val, builtins.int) and not isinstance(val, bool) and is_symbolic(val):
        s = spec[:-1] if spec.endswith('d') else spec
        if s.startswith('0') and len(s) > 1:
            w = builtins.int(s[1:])
            if 0 <= val and val < 10 ** w:
                return mk('t', None, [Num(val, w)])
            raise Unsupported('numeral wider than field')
    return builtins.format(val, spec)


class _BytesMeta(type):
    def __instancecheck__(cls, obj):
        return builtins.isinstance(obj, (builtins.bytes, BRope))
    def __subclasscheck__(cls, sub):
        return builtins.issubclass(sub, (builtins.bytes, BRope))


class BytesLike(metaclass=_BytesMeta):
    """stands in for `bytes` in isinstance checks"""


class IntStr:
    """str(symbolic int) kept lazy, only used to build struct formats"""
    def __init__(self, parts): self.parts = parts
    def __add__(self, o): return IntStr(self.parts + [o])
    def __radd__(self, o): return IntStr([o] + self.parts)


def sh_str(x=''):
    if builtins.isinstance(x, builtins.int) and not builtins.isinstance(x, bool) and type(x) is not builtins.int:
        return IntStr([x])
    return builtins.str(x)


class StructStub:
    error = __import__('struct').error
    @staticmethod
    def pack(fmt, *a):
        return __import__('struct').pack(fmt, *a)
    @staticmethod
    def unpack(fmt, data):
        if builtins.isinstance(fmt, IntStr):
            # only the shape  "<k>s<k>s" + n + "s"
            head, n, tail = fmt.parts
            if tail != 's': raise Unsupported('fmt')
            sizes = [builtins.int(t) for t in head.split('s') if t] + [n]
            if n < 0: raise StructStub.error('bad char in struct format')
            total = 0
            for s in sizes: total = total + s
            if total != len(data): raise StructStub.error('unpack requires a buffer of %d bytes' % total)
            out = []; pos = 0
            for s in sizes:
                out.append(data[pos:pos + s]); pos = pos + s
            return tuple(out)
        if builtins.isinstance(data, Rope):
            import re
            if not re.fullmatch(r'(\d+s)+', fmt): raise Unsupported('unpack fmt %r' % fmt)
            sizes = [builtins.int(t) for t in fmt.split('s') if t]
            total = sum(sizes)
            if total != len(data): raise StructStub.error('unpack requires a buffer of %d bytes' % total)
            out = []; pos = 0
            for s in sizes:
                out.append(data[pos:pos + s]); pos = pos + s
            return tuple(out)
        return __import__('struct').unpack(fmt, data)
