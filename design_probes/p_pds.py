import symload2
from symload2 import FUEL, FuelExhausted
from cardutil import iso8583

def _pds_total(s: str) -> bool:
    """
    pre: len(s) <= 9
    pre: all(ord(c) < 256 for c in s)
    post: _
    """
    FUEL.n = 0
    try:
        iso8583._pds_to_dict(s)
    except ValueError:
        return False          # escapes as non-library error (C07) -- expected to be found today
    except FuelExhausted:
        return False
    return True

def _pds_total_nohang(s: str) -> bool:
    """
    pre: len(s) <= 9
    pre: all(ord(c) < 256 for c in s)
    post: _
    """
    FUEL.n = 0
    try:
        iso8583._pds_to_dict(s)
    except ValueError:
        return True
    except FuelExhausted:
        return False
    return True

def _icc_total(b: bytes) -> bool:
    """
    pre: len(b) <= 6
    post: _
    """
    FUEL.n = 0
    try:
        iso8583._icc_to_dict(b)
    except FuelExhausted:
        return False
    return True
