import symload3
import rope, struct as real_struct
from rope import Unsupported, Opq, Rope, mk, _norm
from crosshair.core import proxy_for_type, deep_realize
from crosshair.tracers import NoTracing
from crosshair.util import IgnoreAttempt
from cardutil import iso8583

PEEK = []     # [src, pos, value]  lazily instantiated content bytes
WIT = []
_c = [0]
def fresh_byte():
    _c[0] += 1
    with NoTracing():
        v = proxy_for_type(int, 'b%d' % _c[0])
    if 0 <= v <= 255:
        return v
    raise IgnoreAttempt('byte range')

def peek(src, pos):
    for e in PEEK:
        if e[0] == src and e[1] == pos:
            return e[2]
    v = fresh_byte()
    PEEK.append([src, pos, v])
    return v

def single_opq(r, n):
    if isinstance(r, Rope) and len(r.pieces) == 1 and isinstance(r.pieces[0], Opq):
        p = r.pieces[0]
        if p.hi - p.lo == n:
            return p
    return None

# equality of an opaque slice with a literal: decided through the peek table
_orig_eq = Rope.__eq__
def rope_eq(self, other):
    if isinstance(other, (bytes, str)) and len(self.pieces) == 1 and isinstance(self.pieces[0], Opq):
        p = self.pieces[0]
        if len(other) != p.hi - p.lo:
            return False
        raw = other if isinstance(other, bytes) else other.encode('latin_1')
        for k in range(len(raw)):
            if peek(p.src, p.lo + k) != raw[k]:
                return False
        return True
    if isinstance(other, Rope) and len(self.pieces) == 1 and len(other.pieces) == 1 \
            and isinstance(self.pieces[0], Opq) and isinstance(other.pieces[0], Opq):
        p, q = self.pieces[0], other.pieces[0]
        if p.src == q.src and p.lo == q.lo and p.hi == q.hi:
            return True
        if p.hi - p.lo != q.hi - q.lo:
            return False
        n = None
        for k in range(1, 9):
            if p.hi - p.lo == k:
                n = k
                break
        if n is None:
            raise Unsupported('content equality of long opaque ranges')
        for k in range(n):
            if peek(p.src, p.lo + k) != peek(q.src, q.lo + k):
                return False
        return True
    return _orig_eq(self, other)
Rope.__eq__ = rope_eq
Rope.__hash__ = lambda self: 7

class LazyHex:
    def __init__(self, src, upper=False): self.src = src; self.up = upper
    def decode(self, *a): return self
    def upper(self): return LazyHex(self.src, True)
    def __radd__(self, o): return KeyStr(o, self)
    def __eq__(self, o):
        if isinstance(o, LazyHex): return self.src == o.src
        if isinstance(o, (bytes, str)):
            s = o.decode() if isinstance(o, bytes) else o
            if len(s) % 2: return False
            return self.src == bytes.fromhex(s)
        return False
    def __hash__(self): return 11
class KeyStr:
    def __init__(self, prefix, hx): self.prefix = prefix; self.hx = hx
    def __eq__(self, o): return isinstance(o, KeyStr) and self.prefix == o.prefix and self.hx == o.hx
    def __hash__(self): return 11
class BinasciiStub:
    @staticmethod
    def b2a_hex(x): return LazyHex(x)
class StructStub:
    error = real_struct.error
    @staticmethod
    def unpack(fmt, data):
        if fmt == '>B':
            if len(data) != 1:
                raise real_struct.error('unpack requires a buffer of 1 bytes')
            p = single_opq(data, 1)
            if p is None: raise Unsupported('unpack >B of %r' % (data,))
            return (peek(p.src, p.lo),)
        raise Unsupported(fmt)
iso8583.binascii = BinasciiStub
iso8583.struct = StructStub

def _icc_escape(n: int) -> bool:
    """
    pre: 0 <= n <= 6
    post: _
    """
    PEEK.clear(); _c[0] = 0
    data = _norm('b', None, [Opq('I', 0, n)])
    try:
        iso8583._icc_to_dict(data)
    except real_struct.error:
        WIT.append(deep_realize({'n': n, 'peek': [list(e) for e in PEEK]}))
        return False
    return True

def _icc_framing(n: int) -> bool:
    """
    pre: 0 <= n <= 6
    post: _
    """
    PEEK.clear(); _c[0] = 0
    data = _norm('b', None, [Opq('I', 0, n)])
    try:
        out = iso8583._icc_to_dict(data)
    except real_struct.error:
        return True       # looked past here; C07 covers it
    # every TAG value must be a slice of I that lies after its tag and length byte
    ok = True
    for k, v in out.items():
        if isinstance(k, KeyStr):
            t = k.hx.src.pieces[0]
            val = v.src
            if isinstance(val, Rope):
                vp = val.pieces[0]
                ok = ok and vp.lo == t.hi + 1 and vp.hi - vp.lo <= peek('I', t.hi)
            else:
                ok = ok and len(val) == 0
    return ok
