from typing import List
from cardutil import mciipm

class Seg:
    """content-abstract view of stream bytes [lo, hi)"""
    def __init__(self, lo, hi):
        self.lo = lo
        self.hi = hi
    def __len__(self):
        return self.hi - self.lo
    def __getitem__(self, sl):
        if not isinstance(sl, slice) or sl.step is not None:
            raise TypeError('abstract bytes: only plain slices')
        n = self.hi - self.lo
        a = 0 if sl.start is None else sl.start
        b = n if sl.stop is None else sl.stop
        if a < 0: a = max(n + a, 0)
        if b < 0: b = max(n + b, 0)
        if a > n: a = n
        if b > n: b = n
        if b < a: b = a
        return Seg(self.lo + a, self.lo + b)

class Sink:
    def __init__(self):
        self.chunks = []
    def write(self, b):
        if isinstance(b, Seg):
            self.chunks.append(('d', b.lo, b.hi))
        else:
            if b != b'\x40' * len(b):
                raise TypeError('unexpected concrete write')
            self.chunks.append(('p', len(b), 0))
    def seek(self, pos):
        pass

def layout_ok(chunks, total):
    pos = 0   # output offset
    sp = 0    # stream bytes emitted so far
    for kind, a, b in chunks:
        if kind == 'd':
            n = b - a
            if n < 0: return False
            if n == 0: continue
            if a != sp: return False
            off = pos % 1014
            if off + n > 1012: return False
            sp += n; pos += n
        else:
            n = a
            if n == 0: continue
            off = pos % 1014
            if sp < total or off >= 1012:
                # must be exactly the trailer
                if off + n > 1014: return False
                if off < 1012 and sp < total: return False
            # fill after end of stream: may run to end of block
            if off + n > 1014: return False
            pos += n
    return sp == total and pos % 1014 == 0

def _two_writes(n1: int, n2: int) -> bool:
    """
    pre: 0 <= n1 <= 2100
    pre: 0 <= n2 <= 3100
    post: _
    """
    s = Sink()
    b = mciipm.Block1014(s)
    b.write(Seg(0, n1))
    b.write(Seg(n1, n1 + n2))
    b.finalise()
    return layout_ok(s.chunks, n1 + n2)

def layout_ok2(chunks, total):
    pos = 0
    sp = 0
    ok = True
    for kind, a, b in chunks:
        off = pos % 1014
        if kind == 'd':
            n = b - a
            ok = ok & (n >= 0) & ((n == 0) | ((a == sp) & (off + n <= 1012)))
            sp = sp + n
            pos = pos + n
        else:
            n = a
            ok = ok & ((n == 0) | ((off + n <= 1014) & ((off >= 1012) | (sp == total))))
            pos = pos + n
    return ok & (sp == total) & (pos % 1014 == 0)

def _two_writes_nooracle(n1: int, n2: int) -> bool:
    """
    pre: 0 <= n1 <= 2100
    pre: 0 <= n2 <= 3100
    post: _
    """
    s = Sink()
    b = mciipm.Block1014(s)
    b.write(Seg(0, n1))
    b.write(Seg(n1, n1 + n2))
    b.finalise()
    return True

def _two_writes2(n1: int, n2: int) -> bool:
    """
    pre: 0 <= n1 <= 2100
    pre: 0 <= n2 <= 3100
    post: _
    """
    s = Sink()
    b = mciipm.Block1014(s)
    b.write(Seg(0, n1))
    b.write(Seg(n1, n1 + n2))
    b.finalise()
    return layout_ok2(s.chunks, n1 + n2)
