import symload3, binascii
import rope
from rope import mk, Opq, Rope, Lit, Fill, Unsupported, _norm
from p_vbs import StructStub, PadChar, U32
from p_close import RopeFile
from cardutil import mciipm
mciipm.struct = StructStub

BM = binascii.unhexlify('c0000000000000000000000000000000')
def msg(name, n):
    # an IPM record as the writer would produce it for {'MTI','DE2'}: literal header + numeral + opaque value
    return _norm('b', 'latin_1', [Lit(b'1144' + BM), rope.Num(n, 2), Opq(name, 0, n)])

def _info_blocked(n1: int, k: int) -> bool:
    """
    pre: 1 <= n1 <= 99
    pre: 1 <= k <= 3
    post: _
    """
    mciipm.Block1014.PAD_CHAR = PadChar()
    f = RopeFile()
    w = mciipm.VbsWriter(f, blocked=True)
    for i in range(30 * k):          # 30 records of <= 121 bytes each per unit: 1..9 blocks
        w.write(msg('v%d' % i, n1))
    w.close()
    f.seek(0)
    info = mciipm.ipm_info(f)
    return info.get('isValidIPM') is True and info.get('isBlocked') is True and info.get('encoding') == 'latin1'

def rec(name, n):
    return _norm('b', 'latin_1', [Lit(b'1144' + BM), Opq(name, 0, n)])

def _info_blocked2(n1: int, n2: int) -> bool:
    """
    pre: 4 <= n1 <= 5900
    pre: 4 <= n2 <= 5900
    post: _
    """
    mciipm.Block1014.PAD_CHAR = PadChar()
    f = RopeFile()
    w = mciipm.VbsWriter(f, blocked=True)
    w.write(rec('a', n1)); w.write(rec('b', n2))
    w.close()
    f.seek(0)
    info = mciipm.ipm_info(f)
    return info.get('isValidIPM') is True and info.get('isBlocked') is True and info.get('encoding') == 'latin1'
