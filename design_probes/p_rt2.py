import symload3, datetime
import rope
from rope import mk, Opq, Rope, Lit, Num, Unsupported, _norm
from p_tools import Struct
from cardutil import iso8583
iso8583.struct = Struct

def T(name, n): return _norm('t', None, [Opq(name, 0, n)])

def _rt_packaged(l2: int, l48a: int, l48b: int, amt: int, hexbm: bool) -> bool:
    """
    pre: 1 <= l2 <= 99
    pre: 0 <= l48a <= 992
    pre: 0 <= l48b <= 992
    pre: 0 <= amt <= 999999999999
    post: _
    """
    msg = {'MTI': '1240', 'DE2': T('pan', l2), 'DE3': T('pc', 6), 'DE4': amt,
           'DE12': datetime.datetime(2021, 3, 4, 5, 6, 7), 'DE26': 5411, 'DE38': T('ap', 6),
           'PDS0023': T('pa', l48a), 'PDS0158': T('pb', l48b), 'DE71': 1, 'DE94': T('or', 11)}
    b = iso8583.dumps(dict(msg), encoding='cp500', hex_bitmap=hexbm)
    out = iso8583.loads(b, encoding='cp500', hex_bitmap=hexbm)
    for k, v in msg.items():
        if k not in out or not (out[k] == v):
            return False
    extra = [k for k in out if k not in msg]
    return all(k in ('DE48', 'DE62') for k in extra)
