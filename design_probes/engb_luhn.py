"""Prototype: real card.calculate_check_digit / validate / add on z3-backed digit strings."""
import z3, time, sys, os, ast, builtins
sys.path.insert(0, '.')
from symload3 import Xform
from engb_fork import Explorer
import engb_fork
REPO = os.environ.get('REPO', '/repo')

class ZB:
    def __init__(self, e): self.e = e
    def __bool__(self): return engb_fork.EX.branch(self.e)
class ZI:
    def __init__(self, e): self.e = e
    def _l(self, o): return o.e if isinstance(o, ZI) else z3.IntVal(o)
    def __mul__(self, o): return ZI(self.e * self._l(o))
    __rmul__ = __mul__
    def __add__(self, o): return ZI(self.e + self._l(o))
    __radd__ = __add__
    def __mod__(self, o): return ZI(self.e % self._l(o))
    def __divmod__(self, o): return (ZI(self.e / self._l(o)), ZI(self.e % self._l(o)))
class DChar:
    def __init__(self, v): self.v = v          # z3 Int 0..9
    def isdigit(self): return True
    def __eq__(self, o): return ZB(self.v == o.v) if isinstance(o, DChar) else False
    def __hash__(self): return 1
class DStr:
    def __init__(self, ds): self.ds = list(ds)
    def __iter__(self): return iter([DChar(d) for d in self.ds])
    def __len__(self): return len(self.ds)
    def __getitem__(self, k):
        if isinstance(k, slice): return DStr(self.ds[k])
        return DChar(self.ds[k])
    def __add__(self, o): return DStr(self.ds + (o.ds if isinstance(o, DStr) else [o.v]))
def sh_int(x, base=10): return ZI(x.v) if isinstance(x, DChar) else builtins.int(x, base) if isinstance(x, str) else builtins.int(x)
def sh_str(x=''): return DChar(x.e) if isinstance(x, ZI) else builtins.str(x)

def load():
    path = os.path.join(REPO, 'cardutil/card.py')
    tree = Xform().visit(ast.parse(open(path).read(), path)); ast.fix_missing_locations(tree)
    mod = type(sys)('card_sym'); mod.__file__ = path
    mod.__dict__.update(int=sh_int, str=sh_str, __verif_getitem__=lambda o, k: o[k])
    exec(compile(tree, path, 'exec'), mod.__dict__)
    return mod

def spec_digit(ds):
    tot = z3.IntVal(0); dbl = True
    for d in reversed(ds):
        if dbl:
            tot = tot + z3.If(d >= 5, 2 * d - 9, 2 * d)
        else:
            tot = tot + d
        dbl = not dbl
    return (10 - tot % 10) % 10

if __name__ == '__main__':
    card = load()
    t0 = time.time(); q = 0; res = []
    for L in (1, 2, 8, 16, 19, 30, 40):
        ds = [z3.Int('d%d' % i) for i in range(L)]
        pre = z3.And(*[z3.And(d >= 0, d <= 9) for d in ds])
        # (1) check digit equals spec
        cd = card.calculate_check_digit(DStr(ds))
        s = z3.Solver(); s.add(pre, cd.v != spec_digit(ds)); r1 = s.check(); q += 1
        # (2) validate(add(s)) accepts on every path; single substitution at position p rejected
        engb_fork.EX = Explorer(pre)
        def body(ex):
            ex.begin()
            try:
                card.validate_check_digit(card.add_check_digit(DStr(ds)))
                return 'accepted'
            except AssertionError:
                return 'rejected'
        outs = [o for o, _ in engb_fork.EX.run(body)]
        # (3) substitution of one digit at position L//2 by a different digit x must be rejected
        x = z3.Int('x'); p = L // 2
        engb_fork.EX = Explorer(z3.And(pre, x >= 0, x <= 9, x != ds[p]))
        def body2(ex):
            ex.begin()
            good = card.add_check_digit(DStr(ds))
            bad = DStr(good.ds[:p] + [x] + good.ds[p + 1:])
            try:
                card.validate_check_digit(bad); return 'accepted'
            except AssertionError:
                return 'rejected'
        outs2 = [o for o, _ in engb_fork.EX.run(body2)]
        res.append((L, str(r1), outs, outs2, round(time.time() - t0, 2)))
        print(res[-1])
