from crosshair.core import proxy_for_type
from crosshair.tracers import NoTracing

CNT = [0]
def fresh_int(lo, hi):
    CNT[0] += 1
    with NoTracing():
        v = proxy_for_type(int, 'fresh%d' % CNT[0])
    if not (lo <= v <= hi):
        raise AssertionError('unreachable-filter')   # replaced below by IgnoreAttempt
    return v

from crosshair.util import IgnoreAttempt
def fresh_int2(lo, hi):
    CNT[0] += 1
    with NoTracing():
        v = proxy_for_type(int, 'fresh%d' % CNT[0])
    if lo <= v <= hi:
        return v
    raise IgnoreAttempt('out of range')

def _uses_fresh(a: int) -> bool:
    """
    pre: 0 <= a <= 5
    post: _
    """
    CNT[0] = 0
    x = fresh_int2(0, 9)
    y = fresh_int2(0, 9)
    return a + x + y != 23      # violated only by a=5,x=9,y=9

def _uses_fresh_ok(a: int) -> bool:
    """
    pre: 0 <= a <= 5
    post: _
    """
    CNT[0] = 0
    x = fresh_int2(0, 9)
    y = fresh_int2(0, 9)
    return a + x + y != 24
