import symload3
import rope, struct
from rope import Unsupported
from cardutil import iso8583

class LazyHex:
    """binascii.b2a_hex(x) kept lazy; text or bytes flavour does not matter for the walker"""
    def __init__(self, src, upper=False): self.src = src; self.up = upper
    def decode(self, *a): return self
    def upper(self): return LazyHex(self.src, True)
    def __radd__(self, o): return KeyStr(o, self)
    def __eq__(self, o):
        if isinstance(o, LazyHex): return self.src == o.src
        if isinstance(o, (bytes, str)):
            raw = bytes.fromhex(o.decode() if isinstance(o, bytes) else o) if len(o) % 2 == 0 else None
            if raw is None: return False
            return self.src == raw
        return False
    def __hash__(self): return 11

class KeyStr:
    def __init__(self, prefix, hx): self.prefix = prefix; self.hx = hx
    def __eq__(self, o):
        if isinstance(o, KeyStr): return self.prefix == o.prefix and self.hx == o.hx
        return False          # literal keys in this function are 'ICC_DATA' only
    def __hash__(self): return 11

class BinasciiStub:
    @staticmethod
    def b2a_hex(x): return LazyHex(x)
    hexlify = b2a_hex

iso8583.binascii = BinasciiStub
iso8583.struct = struct            # let CrossHair's own struct model handle '>B'

def ref_tlv(b):
    """independent TLV reading written from the doc: returns list of (tag bytes, value bytes) or None if malformed"""
    out = []; i = 0; n = len(b)
    while i < n:
        t = b[i:i+1]
        if t == b'\x9f' or t == b'\x5f':
            t = b[i:i+2]; i += 2
        else:
            i += 1
        if t == b'\x00':
            break
        if i >= n:
            return None
        L = b[i]
        out.append((t, b[i+1:i+1+L]))
        i += 1 + L
    return out

def _icc_total(b: bytes) -> bool:
    """
    pre: len(b) <= 5
    post: _
    """
    try:
        iso8583._icc_to_dict(b)
    except iso8583.Iso8583DataError:
        return True
    return True

def _icc_matches_ref(b: bytes) -> bool:
    """
    pre: len(b) <= 5
    post: _
    """
    ref = ref_tlv(b)
    try:
        out = iso8583._icc_to_dict(b)
    except struct.error:
        return ref is None        # tolerated only to look past the known escape
    if ref is None:
        return False
    got = [(k.hx.src, v.src) for k, v in out.items() if isinstance(k, KeyStr)]
    exp = {}
    for t, v in ref:
        exp[bytes(t)] = v
    return len(got) == len(exp) and all(exp.get(bytes(t)) == v for t, v in got)
