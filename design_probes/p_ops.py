def _a_fmt_int(n: int) -> bool:
    """
    pre: 0 <= n <= 99
    post: _
    """
    s = format(n, '02')
    return len(s) == 2

def _b_encode(s: str) -> bool:
    """
    pre: len(s) <= 6
    pre: all(ord(c) < 256 for c in s)
    post: _
    """
    return len(s.encode('latin_1')) == len(s)

def _b2_encode_nopre(s: str) -> bool:
    """
    pre: len(s) <= 6
    post: _
    raises: UnicodeEncodeError
    """
    return len(s.encode('latin_1')) == len(s)

def _c_fmt_str(s: str) -> bool:
    """
    pre: len(s) <= 6
    post: _
    """
    return len(format(s, '<6')) == 6

def _d_int_str(s: str) -> bool:
    """
    pre: len(s) == 2
    post: _
    raises: ValueError
    """
    n = int(s)
    return -9 <= n <= 99

def _e_decode(b: bytes) -> bool:
    """
    pre: len(b) <= 6
    post: _
    """
    return len(b.decode('latin_1')) == len(b)

def _f_int_bytes_roundtrip(b: bytes) -> bool:
    """
    pre: len(b) == 2
    post: _
    raises: ValueError
    """
    n = int(b.decode('latin_1'))
    return -9 <= n <= 99
