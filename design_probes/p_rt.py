import symload3
from rope import mk, Opq, Rope, Unsupported
from cardutil import iso8583

CFG = {
    "2": {"field_type": "LLVAR", "field_length": 0},
    "3": {"field_type": "FIXED", "field_length": 6},
    "4": {"field_type": "FIXED", "field_length": 12, "field_python_type": "long"},
    "72": {"field_type": "LLLVAR", "field_length": 0},
}

def T(name, n):
    return mk('t', None, [Opq(name, 0, n)])

def _rt2(l2: int, l72: int, amt: int) -> bool:
    """
    pre: 1 <= l2 <= 99
    pre: 1 <= l72 <= 999
    pre: 0 <= amt <= 999999999999
    post: _
    """
    msg = {'MTI': '1144', 'DE2': T('v2', l2), 'DE3': T('v3', 6), 'DE4': amt, 'DE72': T('v72', l72)}
    b = iso8583.dumps(dict(msg), iso_config=CFG)
    out = iso8583.loads(b, iso_config=CFG)
    return out == msg and len(b) == 20 + 2 + l2 + 6 + 12 + 3 + l72
