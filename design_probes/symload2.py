"""probe loader v2: strip logging, add loop fuel, shadow int() in cardutil.iso8583"""
import ast, sys, importlib.util, os
import symbuiltins
REPO = os.environ.get('REPO', '/repo')

class FuelExhausted(BaseException):
    pass

class Fuel:
    limit = 40
    def __init__(self): self.n = 0
    def tick(self):
        self.n += 1
        if self.n > Fuel.limit:
            raise FuelExhausted('loop exceeded %d iterations' % Fuel.limit)
FUEL = Fuel()

class Xform(ast.NodeTransformer):
    def __init__(self): self.removed = 0; self.loops = 0
    def visit_Expr(self, node):
        c = node.value
        if isinstance(c, ast.Call) and isinstance(c.func, ast.Attribute) and isinstance(c.func.value, ast.Name) \
           and c.func.value.id == 'LOGGER':
            self.removed += 1
            return ast.copy_location(ast.Pass(), node)
        return node
    def visit_While(self, node):
        self.generic_visit(node)
        tick = ast.parse('__verif_fuel__.tick()').body[0]
        ast.copy_location(tick, node)
        node.body.insert(0, tick)
        self.loops += 1
        return node

class Finder:
    def find_spec(self, name, path=None, target=None):
        if name == 'cardutil' or name.startswith('cardutil.'):
            rel = name.replace('.', '/')
            p = os.path.join(REPO, rel + '.py'); pkg = os.path.join(REPO, rel, '__init__.py')
            if os.path.exists(pkg):
                return importlib.util.spec_from_file_location(name, pkg, loader=Loader(pkg, name), submodule_search_locations=[os.path.dirname(pkg)])
            if os.path.exists(p):
                return importlib.util.spec_from_file_location(name, p, loader=Loader(p, name))
        return None

class Loader:
    def __init__(self, path, name): self.path = path; self.name = name
    def create_module(self, spec): return None
    def exec_module(self, module):
        tree = ast.parse(open(self.path).read(), self.path)
        x = Xform(); tree = x.visit(tree); ast.fix_missing_locations(tree)
        module.__dict__['__verif_fuel__'] = FUEL
        if self.name == 'cardutil.iso8583':
            module.__dict__['int'] = symbuiltins.py_int
        exec(compile(tree, self.path, 'exec'), module.__dict__)

for m in [k for k in sys.modules if k == 'cardutil' or k.startswith('cardutil.')]:
    del sys.modules[m]
sys.meta_path.insert(0, Finder())
