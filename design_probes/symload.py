"""Load /repo/cardutil modules from current source with logging statements removed (probe version)."""
import ast, sys, types, importlib.util, os

REPO = os.environ.get('REPO', '/repo')

class Strip(ast.NodeTransformer):
    def __init__(self): self.removed = 0
    def visit_Expr(self, node):
        c = node.value
        if isinstance(c, ast.Call) and isinstance(c.func, ast.Attribute) and isinstance(c.func.value, ast.Name) \
           and c.func.value.id == 'LOGGER':
            self.removed += 1
            return ast.copy_location(ast.Pass(), node)
        return node

class Finder:
    def find_spec(self, name, path=None, target=None):
        if name == 'cardutil' or name.startswith('cardutil.'):
            rel = name.replace('.', '/')
            p = os.path.join(REPO, rel + '.py')
            pkg = os.path.join(REPO, rel, '__init__.py')
            if os.path.exists(pkg):
                return importlib.util.spec_from_file_location(name, pkg, loader=Loader(pkg), submodule_search_locations=[os.path.dirname(pkg)])
            if os.path.exists(p):
                return importlib.util.spec_from_file_location(name, p, loader=Loader(p))
        return None

class Loader:
    def __init__(self, path): self.path = path
    def create_module(self, spec): return None
    def exec_module(self, module):
        src = open(self.path).read()
        tree = ast.parse(src, self.path)
        s = Strip(); tree = s.visit(tree); ast.fix_missing_locations(tree)
        code = compile(tree, self.path, 'exec')
        module.__dict__['__verif_stripped__'] = s.removed
        exec(code, module.__dict__)

def install():
    for m in [k for k in sys.modules if k == 'cardutil' or k.startswith('cardutil.')]:
        del sys.modules[m]
    sys.meta_path.insert(0, Finder())
install()
