"""Prototype engine B: run real pinblock code on z3 bit-vector backed values (no path forking needed for format 0)."""
import ast, os, sys, builtins, z3, time
REPO = os.environ.get('REPO', '/repo')
ERR = []   # (z3 condition, description) under which the real code would raise

def nibc(c):
    return z3.BitVecVal(builtins.int(c, 16), 4)

class HexStr:
    """text made of hex digits; nibbles are BV4 terms; symlen optionally bounds the visible prefix"""
    def __init__(self, nibs, symlen=None): self.nibs = list(nibs); self.symlen = symlen
    @staticmethod
    def lift(x):
        if isinstance(x, HexStr): return x
        return HexStr([nibc(c) for c in x])
    def __len__(self): return len(self.nibs)
    def __add__(self, o): return HexStr(self.nibs + HexStr.lift(o).nibs)
    def __radd__(self, o): return HexStr(HexStr.lift(o).nibs + self.nibs)
    def __getitem__(self, sl):
        if isinstance(sl, slice):
            if isinstance(sl.stop, ZInt):
                start = sl.start or 0
                rest = self.nibs[start:]
                return HexStr(rest, symlen=sl.stop.bv - z3.BitVecVal(start, sl.stop.bv.size()))   # visible length = min(stop-start, len(rest)); bounded by caller
            return HexStr(self.nibs[sl])
        return HexStr([self.nibs[sl]])
    def __format__(self, spec):
        if spec == '': return self
        fill, align, width = spec[0], spec[1], builtins.int(spec[2:])
        assert align == '<'
        return HexStr(self.nibs + [nibc(fill)] * max(0, width - len(self.nibs)))

class ZInt:
    def __init__(self, bv): self.bv = bv
    def __xor__(self, o):
        a, b = self.bv, o.bv
        w = max(a.size(), b.size())
        return ZInt(z3.ZeroExt(w - a.size(), a) ^ z3.ZeroExt(w - b.size(), b))
    def __radd__(self, k):
        return ZInt(self.bv + z3.BitVecVal(k, self.bv.size()))
    __add__ = __radd__
    def to_bytes(self, n, byteorder='big'):
        assert byteorder == 'big'
        w = self.bv.size()
        if w > 8 * n:
            ERR.append((z3.Extract(w - 1, 8 * n, self.bv) != 0, 'OverflowError to_bytes'))
            return ZBytes(z3.Extract(8 * n - 1, 0, self.bv))
        return ZBytes(z3.ZeroExt(8 * n - w, self.bv))
    def __format__(self, spec):
        assert spec.endswith('x') and spec[0] == '0'
        width = builtins.int(spec[1:-1]); w = self.bv.size()
        bv = z3.ZeroExt(4 * width - w, self.bv) if w < 4 * width else self.bv
        n = bv.size() // 4
        return HexStr([z3.Extract(4 * (n - 1 - i) + 3, 4 * (n - 1 - i), bv) for i in range(n)])

class ZBytes:
    def __init__(self, bv): self.bv = bv

class IntShadow:
    def __call__(self, v=0, base=10):
        if isinstance(v, HexStr):
            if base == 16:
                return ZInt(z3.Concat(*v.nibs) if len(v.nibs) > 1 else v.nibs[0])
            assert len(v.nibs) == 1
            ERR.append((z3.UGT(v.nibs[0], 9), 'ValueError int() of hex letter'))
            return ZInt(z3.ZeroExt(4, v.nibs[0]))
        return builtins.int(v, base) if isinstance(v, str) else builtins.int(v)
    @staticmethod
    def from_bytes(b, byteorder='big'):
        return ZInt(b.bv)

def sh_len(x): return x.__len__() if isinstance(x, HexStr) else builtins.len(x)
def sh_format(v, spec=''): return v.__format__(spec) if isinstance(v, (HexStr, ZInt)) else builtins.format(v, spec)

from symload3 import Xform
def load(path, name):
    tree = Xform().visit(ast.parse(open(path).read(), path)); ast.fix_missing_locations(tree)
    mod = type(sys)(name); mod.__file__ = path
    mod.__dict__.update(int=IntShadow(), len=sh_len, format=sh_format)
    exec(compile(tree, path, 'exec'), mod.__dict__)
    return mod

if __name__ == '__main__':
    pb = load(os.path.join(REPO, 'cardutil/pinblock.py'), 'cardutil_pinblock_sym')
    t0 = time.time(); nq = 0
    for L in range(4, 13):
        for P in (13, 16, 19):
            ERR.clear()
            pin = [z3.BitVec('pin%d' % i, 4) for i in range(L)]
            pan = [z3.BitVec('pan%d' % i, 4) for i in range(P)]
            pre = z3.And(*[z3.ULE(x, 9) for x in pin + pan])
            blk = pb.Iso0PinBlock(HexStr(pin), card_number=HexStr(pan)).to_bytes()
            # independent reference
            p1 = [z3.BitVecVal(0, 4), z3.BitVecVal(L, 4)] + pin + [z3.BitVecVal(15, 4)] * (14 - L)
            p2 = [z3.BitVecVal(0, 4)] * 4 + pan[-13:-1]
            ref = z3.Concat(*p1) ^ z3.Concat(*p2)
            back = pb.Iso0PinBlock.from_bytes(blk, card_number=HexStr(pan)).pin
            vis = back.symlen
            same = z3.And(vis == L, *[back.nibs[i] == pin[i] for i in range(min(L, len(back.nibs)))]) if vis is not None else z3.BoolVal(False)
            ok = z3.And(blk.bv.size() == 64, blk.bv == ref if blk.bv.size() == 64 else False, same, *[z3.Not(c) for c, _ in ERR])
            s = z3.Solver(); s.add(pre, z3.Not(ok)); r = s.check(); nq += 1
            print(L, P, r, (''.join(str(s.model().eval(x, True)) for x in pin), ''.join(str(s.model().eval(x, True)) for x in pan)) if str(r) == 'sat' else '')
    print('queries', nq, 'wall', round(time.time() - t0, 2))
