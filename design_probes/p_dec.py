import symload3, binascii
import rope
from rope import mk, Opq, Rope, Lit, Num, Unsupported
from crosshair.core import proxy_for_type, deep_realize
from crosshair.tracers import NoTracing
from crosshair.util import IgnoreAttempt
from cardutil import iso8583
from cardutil.iso8583 import Iso8583DataError

TRACE = []      # nondeterministic numeral reads: [src, lo, hi, is_err, value]
WITNESS = []
_cnt = [0]

def fresh(tp):
    _cnt[0] += 1
    with NoTracing():
        return proxy_for_type(tp, 'nd%d' % _cnt[0])

def nd_int(r):
    """int() of an opaque text slice: any outcome python's int() can produce for a string of that length"""
    if len(r.pieces) != 1 or not isinstance(r.pieces[0], Opq):
        raise Unsupported('int() of mixed rope %r' % (r,))
    p = r.pieces[0]
    for t in TRACE:
        if t[0] == p.src and t[1] == p.lo and t[2] == p.hi:
            if t[3]:
                raise ValueError('invalid literal (replayed)')
            return t[4]
    L = p.hi - p.lo
    width = None
    for k in range(0, 13):
        if L == k:
            width = k
            break
    if width is None:
        raise Unsupported('numeral wider than 12')
    if width == 0 or fresh(bool):
        TRACE.append([p.src, p.lo, p.hi, True, 0])
        raise ValueError('invalid literal')
    v = fresh(int)
    if not (-(10 ** (width - 1) - 1) <= v <= 10 ** width - 1):
        raise IgnoreAttempt('out of int() range')
    TRACE.append([p.src, p.lo, p.hi, False, v])
    return v

_orig = rope.sh_int
def sh_int(val=0, base=10):
    if isinstance(val, Rope) and not (len(val.pieces) == 1 and isinstance(val.pieces[0], Num)):
        return nd_int(val)
    return _orig(val, base)
iso8583.int = sh_int

CFG = {"2": {"field_type": "LLVAR", "field_length": 0}, "3": {"field_type": "FIXED", "field_length": 6}}
BM = binascii.unhexlify('e0000000000000000000000000000000')   # bits 1,2,3

def _exact(n: int) -> bool:
    """
    pre: 0 <= n <= 40
    post: _
    """
    TRACE.clear(); _cnt[0] = 0
    msg = mk('b', 'latin_1', [Lit(b'1144' + BM), Opq('D', 0, n)])
    try:
        out = iso8583.loads(msg, iso_config=CFG)
    except Iso8583DataError:
        return True
    # strict reading: declared length is the first numeral read
    ok = len(TRACE) == 1 and not TRACE[0][3]
    if ok:
        l2 = TRACE[0][4]
        ok = l2 >= 0 and 2 + l2 + 6 == n and out['DE2'] == rope._norm('t', None, [Opq('D', 2, 2 + l2)]) \
            and out['DE3'] == rope._norm('t', None, [Opq('D', 2 + l2, 8 + l2)])
    if not ok:
        WITNESS.append(deep_realize({'n': n, 'trace': [list(t) for t in TRACE]}))
    return ok
