import sys, collections; sys.path.insert(0, '.')
import z3
from crosshair.tracers import NoTracing
SEEN = collections.Counter(); TIME = collections.Counter()
import time
orig = z3.Solver.check
def chk(self, *a):
    f = sys._getframe(1); key = None
    while f is not None:
        fn = f.f_code.co_filename
        if 'crosshair' not in fn and 'z3' not in fn and 'find_queries' not in fn and 'chdrive' not in fn:
            key = (fn.split('/')[-1], f.f_lineno); break
        f = f.f_back
    t = time.perf_counter()
    r = orig(self, *a)
    SEEN[key] += 1; TIME[key] += time.perf_counter() - t
    return r
z3.Solver.check = chk
import chdrive
mod, fn, to = sys.argv[1], sys.argv[2], float(sys.argv[3])
chdrive.run(mod, fn, to)
for k, v in SEEN.most_common(14):
    print(v, round(TIME[k], 1), k)
