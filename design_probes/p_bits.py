import symload
from cardutil.BitArray import BitArray

def _tolist_bits(b: bytes) -> bool:
    """
    pre: len(b) == 2
    post: _
    """
    ba = BitArray()
    ba.frombytes(b)
    l = ba.tolist()
    if len(l) != 16:
        return False
    ok = True
    for i in range(16):
        ok = ok & (l[i] == (((b[i // 8] >> (7 - i % 8)) & 1) == 1))
    return ok
