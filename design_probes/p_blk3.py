from cardutil import mciipm
from p_blk2 import Seg, layout_ok2, layout_ok

class Pad:
    def __init__(self, n=1):
        self.n = n
    def __mul__(self, k):
        return Pad(self.n * k)
    __rmul__ = __mul__
    def __len__(self):
        return self.n

class Sink:
    def __init__(self):
        self.chunks = []
    def write(self, b):
        if isinstance(b, Seg):
            self.chunks.append(('d', b.lo, b.hi))
        elif isinstance(b, Pad):
            self.chunks.append(('p', b.n, 0))
        else:
            raise TypeError('unexpected concrete write')
    def seek(self, pos):
        pass

def _two_writes3(n1: int, n2: int) -> bool:
    """
    pre: 0 <= n1 <= 2100
    pre: 0 <= n2 <= 3100
    post: _
    """
    s = Sink()
    b = mciipm.Block1014(s)
    b.PAD_CHAR = Pad()
    b.write(Seg(0, n1))
    b.write(Seg(n1, n1 + n2))
    b.finalise()
    return layout_ok2(s.chunks, n1 + n2)

def _two_writes3b(n1: int, n2: int) -> bool:
    """
    pre: 0 <= n1 <= 2100
    pre: 0 <= n2 <= 3100
    post: _
    """
    s = Sink()
    b = mciipm.Block1014(s)
    b.PAD_CHAR = Pad()
    b.write(Seg(0, n1))
    b.write(Seg(n1, n1 + n2))
    b.finalise()
    return layout_ok(s.chunks, n1 + n2)
