"""Prototype: decision-stack re-execution over z3 booleans, applied to the real calculate_pvv decimalisation."""
import z3, time, sys, os, ast, builtins, binascii as real_binascii
sys.path.insert(0, '.')
from symload3 import Xform
REPO = os.environ.get('REPO', '/repo')

class Explorer:
    def __init__(self, pre):
        self.solver = z3.Solver(); self.solver.add(pre)
        self.queries = 0; self.paths = 0
    def run(self, fn):
        stack = []              # list of [value, other_pending]
        while True:
            self.pos = 0; self.stack = stack; self.solver.push(); self.depth_pushed = 0
            result = fn(self)
            self.paths += 1
            yield result, list(self.cond_trace)
            self.solver.pop()
            while stack and not stack[-1][1]:
                stack.pop()
            if not stack:
                return
            stack[-1] = [not stack[-1][0], False]
    def begin(self): self.cond_trace = []
    def branch(self, cond):
        if self.pos < len(self.stack):
            v = self.stack[self.pos][0]
        else:
            self.queries += 2
            t = self.solver.check(cond) == z3.sat
            f = self.solver.check(z3.Not(cond)) == z3.sat
            if t and f: v = True; self.stack.append([True, True])
            elif t: v = True; self.stack.append([True, False])
            else: v = False; self.stack.append([False, False])
        self.pos += 1
        self.solver.add(cond if v else z3.Not(cond)); self.cond_trace.append(cond if v else z3.Not(cond))
        return v

EX = None
class ZBool:
    def __init__(self, e): self.e = e
    def __bool__(self): return EX.branch(self.e)
class HexChar:
    def __init__(self, nib): self.nib = nib
    def isdigit(self): return ZBool(z3.ULE(self.nib, 9))
    def isalpha(self): return ZBool(z3.UGT(self.nib, 9))
class HexText:
    def __init__(self, nibs): self.nibs = nibs
    def decode(self): return self
    def __iter__(self): return iter([HexChar(n) for n in self.nibs])
class DigitChar:
    """a decimal digit character with symbolic value (result of str(int(value,16)-10))"""
    def __init__(self, val): self.val = val
class ZSmall:
    def __init__(self, e): self.e = e
    def __sub__(self, k): return ZSmall(self.e - k)

CT = [z3.BitVec('ct%d' % i, 4) for i in range(16)]
class CipherStub:
    def __init__(self, *a, **k): pass
    def encryptor(self): return self
    def update(self, data): return 'CT'
    def finalize(self): return ''
class BinStub:
    @staticmethod
    def unhexlify(x): return x
    @staticmethod
    def hexlify(x): return HexText(CT)
def sh_int(v, base=10):
    if isinstance(v, HexChar): return ZSmall(z3.ZeroExt(4, v.nib))
    return builtins.int(v, base)
def sh_str(v):
    if isinstance(v, ZSmall): return DigitChar(v.e)
    return builtins.str(v)
class Joiner(str):
    def join(self, items): return list(items)

def load():
    path = os.path.join(REPO, 'cardutil/pinblock.py')
    tree = Xform().visit(ast.parse(open(path).read(), path)); ast.fix_missing_locations(tree)
    # ''.join(...)  ->  keep list (shadow via AST: replace Constant('') receiver)
    class J(ast.NodeTransformer):
        def visit_Call(self, node):
            self.generic_visit(node)
            if isinstance(node.func, ast.Attribute) and node.func.attr == 'join' and isinstance(node.func.value, ast.Constant) and node.func.value.value == '':
                return ast.copy_location(ast.Call(ast.Name('__join__', ast.Load()), node.args, []), node)
            return node
    tree = J().visit(tree); ast.fix_missing_locations(tree)
    mod = type(sys)('pb'); mod.__file__ = path
    mod.__dict__.update(int=sh_int, str=sh_str, __join__=lambda items: list(items))
    exec(compile(tree, path, 'exec'), mod.__dict__)
    mod.Cipher = CipherStub; mod.binascii = BinStub
    mod.d_algorithms = type('A', (), {'TripleDES': staticmethod(lambda k: k)})
    mod._get_tsp = lambda *a: 'TSP'
    return mod

def ref_spec(ct):
    """independent: first 4 decimal digits scanning left to right, then a-f mapped to 0-5 in a second scan"""
    # returns z3 expressions for the 4 output digit values, written with If-chains (no forking)
    outs = []
    cnt = z3.BitVecVal(0, 8)
    dig = [z3.ULE(n, 9) for n in ct]
    ndig = sum([z3.If(d, z3.BitVecVal(1, 8), z3.BitVecVal(0, 8)) for d in dig])
    for want in range(4):
        # value of the (want)-th element of  digits ++ mapped letters
        e = z3.BitVecVal(255, 8)
        seen_d = z3.BitVecVal(0, 8)
        for i in reversed(range(16)):
            pass
        # digits pass
        idx_d = []
        c = z3.BitVecVal(0, 8)
        for i in range(16):
            idx_d.append(c)
            c = c + z3.If(dig[i], z3.BitVecVal(1, 8), z3.BitVecVal(0, 8))
        idx_l = []
        c2 = z3.BitVecVal(0, 8)
        for i in range(16):
            idx_l.append(c2)
            c2 = c2 + z3.If(dig[i], z3.BitVecVal(0, 8), z3.BitVecVal(1, 8))
        val = z3.BitVecVal(255, 8)
        for i in range(16):
            val = z3.If(z3.And(dig[i], idx_d[i] == want), z3.ZeroExt(4, ct[i]), val)
            val = z3.If(z3.And(z3.Not(dig[i]), ndig + idx_l[i] == want), z3.ZeroExt(4, ct[i]) - 10, val)
        outs.append(val)
    return outs

if __name__ == '__main__':
    nsym = int(sys.argv[1]) if len(sys.argv) > 1 else 16
    pb = load()
    pre = z3.And(*[CT[i] == 15 for i in range(nsym, 16)]) if nsym < 16 else z3.BoolVal(True)
    EX = Explorer(pre)
    spec = ref_spec(CT)
    t0 = time.time(); bad = 0; vq = 0
    def body(ex):
        ex.begin()
        return pb.calculate_pvv('1234', '00' * 16, 1, '4000000000000002')
    for res, trace in EX.run(body):
        # res is a list of up to 4 HexChar / DigitChar
        ok = len(res) == 4
        conds = []
        if ok:
            for k, r in enumerate(res):
                v = z3.ZeroExt(4, r.nib) if isinstance(r, HexChar) else r.val
                conds.append(v == spec[k])
                conds.append(z3.ULE(v, 9))
        vq += 1
        if not ok or EX.solver.check(z3.Not(z3.And(*conds))) != z3.unsat:
            bad += 1
            if bad < 3: print('VIOLATION on path', trace[:4], EX.solver.model() if ok else 'len %d' % len(res))
    print('nsym', nsym, 'paths', EX.paths, 'fork queries', EX.queries, 'vc queries', vq, 'bad', bad, 'wall', round(time.time() - t0, 1))
