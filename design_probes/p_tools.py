import symload3
import rope, struct as real_struct, re
from rope import mk, Opq, Rope, Lit, Fill, Num, Unsupported, _norm
from p_vbs import U32, PadChar
from p_close import RopeFile
from cardutil import mciipm, iso8583
import cardutil.cli.mci_ipm_encode as enc_tool

class Struct:
    error = real_struct.error
    @staticmethod
    def pack(fmt, n):
        return mk('b', None, [U32(n, fmt)])
    @staticmethod
    def unpack(fmt, data):
        if isinstance(fmt, rope.IntStr) or (isinstance(fmt, str) and re.fullmatch(r'(\d+s)+', fmt)):
            return rope.StructStub.unpack(fmt, data)
        if isinstance(data, Rope) and len(data.pieces) == 1:
            p = data.pieces[0]
            if isinstance(p, U32) and p.fmt == fmt: return (p.n,)
            if isinstance(p, Opq) and isinstance(p.src, tuple) and p.src[0] == 'u32part' and p.lo == 0 and p.hi == 4 and p.src[1].fmt == fmt:
                return (p.src[1].n,)
        if isinstance(data, bytes): return real_struct.unpack(fmt, data)
        raise Unsupported('unpack %r %r' % (fmt, data))
mciipm.struct = Struct
iso8583.struct = Struct

def T(name, n): return _norm('t', None, [Opq(name, 0, n)])

def _encode_roundtrip(l2: int, l72: int, amt: int) -> bool:
    """
    pre: 1 <= l2 <= 99
    pre: 1 <= l72 <= 999
    pre: 0 <= amt <= 999999999999
    post: _
    """
    mciipm.Block1014.PAD_CHAR = PadChar()
    msg = {'MTI': '1144', 'DE2': T('pan', l2), 'DE4': amt, 'DE72': T('d72', l72)}
    src = RopeFile()
    with mciipm.IpmWriter(src, encoding='latin_1', blocked=False) as w:
        w.write(dict(msg))
    orig = src.data
    out = RopeFile()
    enc_tool.mci_ipm_encode(src, out_file=out, in_encoding='latin_1', out_encoding='cp500', in_format='vbs', out_format='1014')
    got = list(mciipm.IpmReader(out, encoding='cp500', blocked=True))
    if got != [msg]:
        return False
    # and back again: byte-identical (piece-identical) to the original file
    out.seek(0)
    back = RopeFile()
    enc_tool.mci_ipm_encode(out, out_file=back, in_encoding='cp500', out_encoding='latin_1', in_format='1014', out_format='vbs')
    return back.data == orig
