"""Pure-python, symbolic-friendly models of builtins used by cardutil (probe version)."""
import builtins
_WS = '\t\n\x0b\x0c\r \x85\xa0'

def py_int(val=0, base=10):
    if not isinstance(val, str):
        return builtins.int(val) if base == 10 else builtins.int(val, base)
    if base != 10:
        return builtins.int(val, base)
    s = val
    n = len(s)
    i = 0
    while i < n and s[i] in _WS:
        i += 1
    j = n
    while j > i and s[j - 1] in _WS:
        j -= 1
    neg = False
    if i < j and (s[i] == '-' or s[i] == '+'):
        neg = s[i] == '-'
        i += 1
    if i >= j:
        raise ValueError('invalid literal for int()')
    ret = 0
    prev_us = True   # underscore not allowed at start
    while i < j:
        c = s[i]
        if c == '_':
            if prev_us:
                raise ValueError('invalid literal for int()')
            prev_us = True
        else:
            d = ord(c) - 48
            if d < 0 or d > 9:
                raise ValueError('invalid literal for int()')
            ret = ret * 10 + d
            prev_us = False
        i += 1
    if prev_us:
        raise ValueError('invalid literal for int()')
    return -ret if neg else ret
