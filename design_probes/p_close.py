import symload3
import rope
from rope import mk, Opq, Rope, Lit, Fill, Unsupported, _norm
import p_vbs
from p_vbs import StructStub, PadChar, R, U32
from cardutil import mciipm
mciipm.struct = StructStub

class RopeFile:
    """positional overwrite semantics like io.BytesIO"""
    def __init__(self):
        self.data = b''; self.pos = 0
    def write(self, b):
        n = len(b)
        head = self.data[:self.pos]
        tail = self.data[self.pos + n:]
        if len(head) < self.pos:
            raise Unsupported('write past end')
        self.data = head + b + tail
        self.pos = self.pos + n
    def seek(self, p): self.pos = p
    def read(self, n=-1):
        out = self.data[self.pos:] if (n is None or n < 0) else self.data[self.pos:self.pos + n]
        self.pos = self.pos + len(out)
        return out

def history(n1, blocked, fin):
    mciipm.Block1014.PAD_CHAR = PadChar()
    f = RopeFile()
    w = mciipm.VbsWriter(f, blocked=blocked)
    recs = [R('r1', n1)]
    w.write(recs[0])
    for op in fin:
        if op == 'c': w.close()
        else: w.__exit__(None, None, None)
    f.seek(0)
    got = list(mciipm.VbsReader(f, blocked=blocked))
    return got == recs

def _close_once(n1: int, blocked: bool) -> bool:
    """
    pre: 1 <= n1 <= 3000
    post: _
    """
    return history(n1, blocked, 'c')

def _close_then_exit(n1: int, blocked: bool) -> bool:
    """
    pre: 1 <= n1 <= 3000
    post: _
    """
    return history(n1, blocked, 'cx')

def _truncated(n1: int, n2: int, t: int, blocked: bool) -> bool:
    """
    pre: 1 <= n1 <= 2500
    pre: 1 <= n2 <= 2500
    pre: 0 <= t
    post: _
    """
    mciipm.Block1014.PAD_CHAR = PadChar()
    f = RopeFile()
    w = mciipm.VbsWriter(f, blocked=blocked)
    recs = [R('r1', n1), R('r2', n2)]
    w.write_many(recs); w.close()
    full = f.data
    if t > len(full):
        return True
    g = RopeFile(); g.data = full[:t]
    got = []
    try:
        for r in mciipm.VbsReader(g, blocked=blocked):
            got.append(r)
    except mciipm.MciIpmDataError:
        pass
    # payload bytes that survive the cut
    if blocked:
        blk = t // 1014; off = t % 1014
        if off > 1012: off = 1012
        pay = blk * 1012 + off
    else:
        pay = t
    exp = []
    if pay >= 4 + n1: exp.append(recs[0])
    if pay >= 8 + n1 + n2: exp.append(recs[1])
    return got == exp

def _trunc_unblocked(n1: int, n2: int, t: int) -> bool:
    """
    pre: 1 <= n1 <= 6000
    pre: 1 <= n2 <= 6000
    pre: 0 <= t
    post: _
    """
    return _truncated(n1, n2, t, False)

def _trunc_blocked1(n1: int, t: int) -> bool:
    """
    pre: 1 <= n1 <= 2500
    pre: 0 <= t
    post: _
    """
    mciipm.Block1014.PAD_CHAR = PadChar()
    f = RopeFile()
    w = mciipm.VbsWriter(f, blocked=True)
    recs = [R('r1', n1)]
    w.write_many(recs); w.close()
    full = f.data
    if t > len(full):
        return True
    g = RopeFile(); g.data = full[:t]
    got = []
    try:
        for r in mciipm.VbsReader(g, blocked=True):
            got.append(r)
    except mciipm.MciIpmDataError:
        pass
    blk = t // 1014; off = t % 1014
    if off > 1012: off = 1012
    pay = blk * 1012 + off
    exp = [recs[0]] if pay >= 4 + n1 else []
    return got == exp
