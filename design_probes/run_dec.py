import sys, json; sys.path.insert(0, '.')
import chdrive, p_dec
chdrive.run('p_dec', '_exact', 120)
print('WITNESS', p_dec.WITNESS[-1:] )
w = p_dec.WITNESS[-1]
data = bytearray(b'A' * w['n'])
for src, lo, hi, err, v in w['trace']:
    L = hi - lo
    s = ('x' * L) if err else (('-' + str(-v).zfill(L - 1)) if v < 0 else str(v).zfill(L))
    data[lo:hi] = s.encode()
msg = b'1144' + p_dec.BM + bytes(data)
print('concrete message', msg)
import subprocess
print(subprocess.run(['/venv/bin/python', '-c', 'import sys; from cardutil import iso8583; print(iso8583.loads(%r, iso_config=%r))' % (msg, p_dec.CFG)], cwd='/repo', capture_output=True, text=True).stdout)
