import sys, collections; sys.path.insert(0, '.')
import chdrive
from crosshair import statespace as S
from crosshair.tracers import NoTracing
SEEN = collections.Counter()
orig = S.StateSpace.find_model_value
def fmv(self, *a, **kw):
  with NoTracing():
    f = sys._getframe(1); key = []
    while f is not None and len(key) < 4:
        fn = f.f_code.co_filename
        if 'crosshair' not in fn and 'chdrive' not in fn and 'find_realize' not in fn:
            key.append((fn.split('/')[-1], f.f_lineno))
        f = f.f_back
    SEEN[tuple(key)] += 1
  return orig(self, *a, **kw)
S.StateSpace.find_model_value = fmv
mod, fn, to = sys.argv[1], sys.argv[2], float(sys.argv[3])
chdrive.run(mod, fn, to)
for k, v in SEEN.most_common(8):
    print(v, k)
