import symload3
from cardutil import card
from p_card import ref_luhn

def _luhn_8(s: str) -> bool:
    """
    pre: len(s) == 8
    pre: s.isdecimal() and s.isascii()
    post: _
    """
    return card.calculate_check_digit(s) == ref_luhn(s) and card.add_check_digit(s)[-1] == ref_luhn(s)

def _luhn_12(s: str) -> bool:
    """
    pre: len(s) == 12
    pre: s.isdecimal() and s.isascii()
    post: _
    """
    return card.calculate_check_digit(s) == ref_luhn(s) and card.add_check_digit(s)[-1] == ref_luhn(s)

def _luhn_16(s: str) -> bool:
    """
    pre: len(s) == 16
    pre: s.isdecimal() and s.isascii()
    post: _
    """
    return card.calculate_check_digit(s) == ref_luhn(s) and card.add_check_digit(s)[-1] == ref_luhn(s)

def _luhn_19(s: str) -> bool:
    """
    pre: len(s) == 19
    pre: s.isdecimal() and s.isascii()
    post: _
    """
    return card.calculate_check_digit(s) == ref_luhn(s) and card.add_check_digit(s)[-1] == ref_luhn(s)
