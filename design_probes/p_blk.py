from typing import List
from cardutil import mciipm

class Sink:
    """write-only stub file: accumulates chunks in a python list"""
    def __init__(self):
        self.chunks = []
    def write(self, b):
        self.chunks.append(b)
    def seek(self, pos):
        pass
    def data(self):
        out = b''
        for c in self.chunks:
            out = out + c
        return out

def _one_write_from_state(pre: bytes, data: bytes) -> bool:
    """
    pre: len(pre) <= 1100
    pre: len(data) <= 2100
    post: _
    """
    s = Sink()
    b = mciipm.Block1014(s)
    b.write(pre)
    b.write(data)
    b.finalise()
    out = s.data()
    stream = pre + data
    if len(out) % 1014 != 0:
        return False
    nblk = len(out) // 1014
    # payload check
    pay = b''
    for k in range(nblk):
        blk = out[k*1014:(k+1)*1014]
        if blk[1012:] != b'\x40\x40':
            return False
        pay = pay + blk[:1012]
    if pay[:len(stream)] != stream:
        return False
    fill = pay[len(stream):]
    if len(fill) > 1012:
        return False
    return fill == b'\x40' * len(fill)
