import sys, time, importlib, collections, json
import z3
Q = {"n": 0, "t": 0.0, "unknown": 0}
_orig = z3.Solver.check
def _check(self, *a):
    t = time.perf_counter()
    r = _orig(self, *a)
    Q["t"] += time.perf_counter() - t
    Q["n"] += 1
    if str(r) == "unknown": Q["unknown"] += 1
    return r
z3.Solver.check = _check
from crosshair.core_and_libs import analyze_function, run_checkables, MessageType
from crosshair.options import AnalysisOptionSet
from crosshair.core import AnalysisMessage
import crosshair.core as core

def run(modname, fname, timeout=60.0, per_path=None):
    mod = importlib.import_module(modname)
    fn = getattr(mod, fname)
    stats = collections.Counter()
    opts = AnalysisOptionSet(per_condition_timeout=timeout, report_all=True, stats=stats,
                             per_path_timeout=per_path)
    Q.update(n=0, t=0.0, unknown=0)
    t0 = time.perf_counter()
    msgs = run_checkables(analyze_function(fn, opts))
    wall = time.perf_counter() - t0
    out = []
    for m in msgs:
        out.append((m.state.name, m.message[:300]))
    print(json.dumps({"fn": fname, "wall": round(wall, 2), "paths": stats.get("num_paths"), "queries": Q["n"],
                      "solver_s": round(Q["t"], 2), "unknown": Q["unknown"], "msgs": out}))
    return msgs

if __name__ == "__main__":
    sys.path.insert(0, ".")
    mod = sys.argv[1]
    to = float(sys.argv[2])
    for f in sys.argv[3:]:
        run(mod, f, to)
