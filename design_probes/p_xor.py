def hexval(s: str) -> int:
    r = 0
    for c in s:
        o = ord(c)
        if 48 <= o <= 57:
            d = o - 48
        elif 97 <= o <= 102:
            d = o - 87
        else:
            raise ValueError
        r = r * 16 + d
    return r

def _xor_involution(a: int, b: int) -> bool:
    """
    pre: 0 <= a < 2**64
    pre: 0 <= b < 2**64
    post: _
    """
    return (a ^ b) ^ b == a

def _nibbles(pin: str, pan: str) -> bool:
    """
    pre: len(pin) == 6
    pre: all(c in '0123456789' for c in pin)
    pre: len(pan) == 12
    pre: all(c in '0123456789' for c in pan)
    post: _
    """
    p1 = hexval('06' + pin + 'ffffffff')
    p2 = hexval('0000' + pan)
    blk = p1 ^ p2
    # format-0 property: top byte is 0x06, and xor back gives p1
    return (blk >> 56) == 6 and (blk ^ p2) == p1 and ((blk >> 48) & 255) == (ord(pin[0]) - 48) * 16 + (ord(pin[1]) - 48)
