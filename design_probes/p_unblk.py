import symload3
import rope
from rope import mk, Opq, Rope, Lit, Fill, Unsupported, _norm
from cardutil import mciipm

class BlockedSource:
    """a file of F bytes whose 1014-byte blocks carry payload 'pay' (1012 each) and trailers 'trl' (2 each);
    positioned at block index k (arbitrary state)"""
    def __init__(self, F, k): self.F = F; self.k = k
    def read(self, n):
        assert n == 1014
        start = 1014 * self.k
        avail = self.F - start
        if avail <= 0:
            return b''
        pl = avail if avail < 1012 else 1012
        tl = avail - 1012
        if tl < 0: tl = 0
        if tl > 2: tl = 2
        self.k = self.k + 1
        return _norm('b', None, [Opq('pay', 1012 * (self.k - 1), 1012 * (self.k - 1) + pl), Opq('trl', 2 * (self.k - 1), 2 * (self.k - 1) + tl)])

def payload_total(F):
    full = F // 1014
    rest = F % 1014
    if rest > 1012: rest = 1012
    return full * 1012 + rest

def _read_step(F: int, k: int, d: int, n: int) -> bool:
    """
    pre: 0 <= F <= 4 * 1014
    pre: 0 <= k <= 5
    pre: 0 <= d
    pre: 1 <= n <= 2100
    post: _
    """
    P = payload_total(F)
    fetched = 1012 * k
    if fetched > P: fetched = P
    if 1014 * (k - 1) >= F and k > 0:
        return True                      # state not reachable: reader never advances past EOF block
    if d > fetched:
        return True                      # invariant: delivered <= fetched
    src = BlockedSource(F, k)
    u = mciipm.Unblock1014(src)
    u.buffer = _norm('b', None, [Opq('pay', d, fetched)])
    out = u.read(n)
    end = d + n
    if end > P: end = P
    exp = _norm('b', None, [Opq('pay', d, end)])
    # result, and invariant re-established: buffer == payload[end : fetched'] with fetched' = min(1012*k', P)
    f2 = 1012 * src.k
    if f2 > P: f2 = P
    return out == exp and u.buffer == _norm('b', None, [Opq('pay', end, f2)])
