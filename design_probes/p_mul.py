def _mul(n: int) -> bool:
    """
    pre: 0 <= n <= 89
    post: _
    """
    s = '*' * n
    return len(s) == n

def _mask_big(s: str) -> bool:
    """
    pre: 10 <= len(s) <= 40
    post: _
    """
    from cardutil import card
    r = card.mask(s)
    return len(r) == len(s) and r[:6] == s[:6] and r[-4:] == s[-4:] and r[6:-4] == '*' * (len(s) - 10)
