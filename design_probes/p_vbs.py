import symload3
import rope
from rope import mk, Opq, Rope, Lit, Fill, Num, Piece, Unsupported
from cardutil import mciipm

class U32(Piece):
    __slots__ = ('n', 'fmt')
    def __init__(self, n, fmt): self.n = n; self.fmt = fmt
    def length(self): return 4
    def cut(self, a, b):
        if a == 0 and b == 4: return self
        return Opq(('u32part', self), a, b)
    def same(self, o): return isinstance(o, U32) and self.fmt == o.fmt and self.n == o.n
    def __repr__(self): return 'U32(%r)' % (self.n,)

class StructStub:
    error = __import__('struct').error
    @staticmethod
    def pack(fmt, n):
        return mk('b', None, [U32(n, fmt)])
    @staticmethod
    def unpack(fmt, data):
        if isinstance(data, Rope) and len(data.pieces) == 1 and isinstance(data.pieces[0], U32) and data.pieces[0].fmt == fmt:
            return (data.pieces[0].n,)
        if isinstance(data, Rope) and len(data.pieces) == 1 and isinstance(data.pieces[0], Opq):
            p = data.pieces[0]
            if isinstance(p.src, tuple) and p.src[0] == 'u32part' and p.lo == 0 and p.hi == 4 and p.src[1].fmt == fmt:
                return (p.src[1].n,)
        raise Unsupported('unpack of %r' % (data,))

mciipm.struct = StructStub

class PadChar:
    def __mul__(self, k):
        return mk('b', None, [Fill(b'\x40', k)])

class RopeFile:
    def __init__(self):
        self.data = b''
        self.pos = 0
    def write(self, b):
        self.data = self.data + b
    def seek(self, p):
        self.pos = p
    def read(self, n=-1):
        if n is None or n < 0:
            out = self.data[self.pos:]
        else:
            out = self.data[self.pos:self.pos + n]
        self.pos = self.pos + len(out)
        return out

def R(name, n):
    return mk('b', None, [Opq(name, 0, n)])

def _vbs_rt(n1: int, n2: int, blocked: bool) -> bool:
    """
    pre: 1 <= n1 <= 3000
    pre: 1 <= n2 <= 3000
    post: _
    """
    mciipm.Block1014.PAD_CHAR = PadChar()
    f = RopeFile()
    w = mciipm.VbsWriter(f, blocked=blocked)
    recs = [R('r1', n1), R('r2', n2)]
    for r in recs:
        w.write(r)
    w.close()
    got = list(mciipm.VbsReader(f, blocked=blocked))
    return got == recs
