import symload
from cardutil import iso8583
from cardutil.iso8583 import Iso8583DataError

LL = {"field_name": "x", "field_type": "LLVAR", "field_length": 0}
LLL = {"field_name": "x", "field_type": "LLLVAR", "field_length": 0}
FX = {"field_name": "x", "field_type": "FIXED", "field_length": 6}
NUM = {"field_name": "x", "field_type": "FIXED", "field_length": 12, "field_python_type": "long"}

def _rt_llvar(v: str) -> bool:
    """
    pre: 1 <= len(v) <= 6
    pre: all(ord(c) < 256 for c in v)
    post: _
    """
    b = iso8583._field_to_iso8583(LL, v, 'latin_1')
    d, inc = iso8583._iso8583_to_field(2, LL, b + b'XYZ', 'latin_1')
    return d == {'DE2': v} and inc == len(b) and len(b) == 2 + len(v)

def _rt_num(n: int) -> bool:
    """
    pre: 0 <= n <= 999999999999
    post: _
    """
    b = iso8583._field_to_iso8583(NUM, n, 'latin_1')
    d, inc = iso8583._iso8583_to_field(4, NUM, b + b'XYZ', 'latin_1')
    return d == {'DE4': n} and inc == 12 and len(b) == 12

def _dec_llvar_exact(m: bytes) -> bool:
    """
    pre: 2 <= len(m) <= 8
    post: _
    """
    try:
        d, inc = iso8583._iso8583_to_field(2, LL, m, 'latin_1')
    except Iso8583DataError:
        return True
    # framing: inc = 2 + declared length, declared >= 0, value is exactly those bytes
    n = inc - 2
    return n >= 0 and d['DE2'] == m[2:2 + n].decode('latin_1') and len(d['DE2']) == n
