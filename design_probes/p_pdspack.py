import symload3
import rope
from rope import mk, Opq, Rope, Lit, Num, Unsupported, _norm
from cardutil import iso8583

def V(name, n):
    return _norm('t', None, [Opq(name, 0, n)])

def _pack3(a: int, b: int, c: int) -> bool:
    """
    pre: 0 <= a <= 992
    pre: 0 <= b <= 992
    pre: 0 <= c <= 992
    post: _
    """
    vals = {'PDS0001': V('a', a), 'PDS0105': V('b', b), 'PDS9999': V('c', c)}
    carriers = iso8583._pds_to_de(dict(vals))
    # independent greedy spec on lengths
    lens = [7 + a, 7 + b, 7 + c]
    exp = []
    cur = 0
    for L in lens:
        if cur + L > 999:
            exp.append(cur)
            cur = 0
        cur += L
    if cur:
        exp.append(cur)
    if len(carriers) != len(exp):
        return False
    back = {}
    for car, e in zip(carriers, exp):
        if len(car) != e or len(car) > 999:
            return False
        back.update(iso8583._pds_to_dict(car))
    return back == vals
