"""probe loader v3"""
import ast, sys, importlib.util, os
import rope
REPO = os.environ.get('REPO', '/repo')

class Xform(ast.NodeTransformer):
    def visit_Expr(self, node):
        c = node.value
        if isinstance(c, ast.Call) and isinstance(c.func, ast.Attribute) and isinstance(c.func.value, ast.Name) \
           and c.func.value.id == 'LOGGER':
            return ast.copy_location(ast.Pass(), node)
        return node
    def visit_JoinedStr(self, node):
        # f'..{x:spec}..'  ->  '' + format(x, spec) + ...   (left-assoc concatenation)
        self.generic_visit(node)
        parts = []
        for v in node.values:
            if isinstance(v, ast.Constant):
                parts.append(v)
            else:
                val = v.value
                if v.conversion == ord('r'): val = ast.Call(ast.Name('repr', ast.Load()), [val], [])
                elif v.conversion == ord('s'): val = ast.Call(ast.Name('str', ast.Load()), [val], [])
                spec = v.format_spec if v.format_spec is not None else ast.Constant('')
                if isinstance(spec, ast.JoinedStr):
                    spec = self.visit_JoinedStr(spec) if not all(isinstance(x, ast.Constant) for x in spec.values) \
                        else ast.Constant(''.join(x.value for x in spec.values))
                parts.append(ast.Call(ast.Name('format', ast.Load()), [val, spec], []))
        expr = parts[0] if parts else ast.Constant('')
        if not isinstance(expr, ast.Constant):
            expr = ast.BinOp(ast.Constant(''), ast.Add(), expr)
        for p in parts[1:]:
            expr = ast.BinOp(expr, ast.Add(), p)
        return ast.copy_location(expr, node)

    def visit_Subscript(self, node):
        self.generic_visit(node)
        if not isinstance(node.ctx, ast.Load):
            return node
        sl = node.slice
        if isinstance(sl, ast.Slice):
            none = ast.Constant(None)
            key = ast.Call(ast.Name('slice', ast.Load()), [sl.lower or none, sl.upper or none, sl.step or none], [])
        else:
            key = sl
        return ast.copy_location(ast.Call(ast.Name('__verif_getitem__', ast.Load()), [node.value, key], []), node)

def verif_getitem(obj, key):
    if isinstance(key, slice) and type(obj) in (bytes, str) and (rope.is_symbolic(key.start) or rope.is_symbolic(key.stop)):
        if len(obj) == 0:
            return obj
        obj = rope.mk('b' if type(obj) is bytes else 't', None, [rope.Lit(obj)])
    return obj[key]

class Finder:
    def find_spec(self, name, path=None, target=None):
        if name == 'cardutil' or name.startswith('cardutil.'):
            rel = name.replace('.', '/')
            p = os.path.join(REPO, rel + '.py'); pkg = os.path.join(REPO, rel, '__init__.py')
            if os.path.exists(pkg):
                return importlib.util.spec_from_file_location(name, pkg, loader=Loader(pkg, name), submodule_search_locations=[os.path.dirname(pkg)])
            if os.path.exists(p):
                return importlib.util.spec_from_file_location(name, p, loader=Loader(p, name))
        return None

class Loader:
    def __init__(self, path, name): self.path = path; self.name = name
    def create_module(self, spec): return None
    def exec_module(self, module):
        tree = ast.parse(open(self.path).read(), self.path)
        tree = Xform().visit(tree); ast.fix_missing_locations(tree)
        module.__dict__['__verif_getitem__'] = verif_getitem
        module.__dict__['format'] = rope.sh_format
        if self.name == 'cardutil.iso8583':
            module.__dict__.update(int=rope.sh_int, format=rope.sh_format, bytes=rope.BytesLike,
                                   str=rope.sh_str)
        exec(compile(tree, self.path, 'exec'), module.__dict__)
        if self.name == 'cardutil.iso8583':
            module.__dict__['struct'] = rope.StructStub

for m in [k for k in sys.modules if k == 'cardutil' or k.startswith('cardutil.')]:
    del sys.modules[m]
sys.meta_path.insert(0, Finder())
