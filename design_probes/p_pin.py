import symload2
from cardutil import pinblock

def ref_iso0(pin: str, pan: str) -> int:
    p1 = 0
    digs = [0, len(pin)] + [ord(c) - 48 for c in pin]
    while len(digs) < 16:
        digs.append(15)
    for d in digs:
        p1 = p1 * 16 + d
    p2 = 0
    for c in pan[-13:-1]:
        p2 = p2 * 16 + (ord(c) - 48)
    return p1 ^ p2

def _iso0_matches(pin: str, pan: str) -> bool:
    """
    pre: 4 <= len(pin) <= 5
    pre: all(c in '0123456789' for c in pin)
    pre: len(pan) == 16
    pre: all(c in '0123456789' for c in pan)
    post: _
    """
    b = pinblock.Iso0PinBlock(pin, card_number=pan).to_bytes()
    return int.from_bytes(b, 'big') == ref_iso0(pin, pan)

def _iso0_roundtrip(pin: str, pan: str) -> bool:
    """
    pre: 4 <= len(pin) <= 5
    pre: all(c in '0123456789' for c in pin)
    pre: len(pan) == 16
    pre: all(c in '0123456789' for c in pan)
    post: _
    """
    b = pinblock.Iso0PinBlock(pin, card_number=pan).to_bytes()
    return pinblock.Iso0PinBlock.from_bytes(b, card_number=pan).pin == pin
